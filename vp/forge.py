"""Forge: build SAML protocol messages from parameter records, sign/encrypt them with the xmlsec model's
library functions.  Independent of pysaml2's own IdP code."""
import base64
import time as _time

from vp import env, xmlsec, world
from vp.world import IDP_A, SP_X, ACS_POST

SAML = 'urn:oasis:names:tc:SAML:2.0:assertion'
SAMLP = 'urn:oasis:names:tc:SAML:2.0:protocol'
DS = 'http://www.w3.org/2000/09/xmldsig#'
XENC = 'http://www.w3.org/2001/04/xmlenc#'
STATUS_SUCCESS = 'urn:oasis:names:tc:SAML:2.0:status:Success'
BEARER = 'urn:oasis:names:tc:SAML:2.0:cm:bearer'
NF_TRANSIENT = 'urn:oasis:names:tc:SAML:2.0:nameid-format:transient'
NAME_FORMAT_BASIC = 'urn:oasis:names:tc:SAML:2.0:attrname-format:basic'
NAME_FORMAT_URI = 'urn:oasis:names:tc:SAML:2.0:attrname-format:uri'
PASSWORD = 'urn:oasis:names:tc:SAML:2.0:ac:classes:Password'

SIG_ALGS = {
    'sha1': ('http://www.w3.org/2000/09/xmldsig#rsa-sha1', 'http://www.w3.org/2000/09/xmldsig#sha1'),
    'sha224': ('http://www.w3.org/2001/04/xmldsig-more#rsa-sha224', 'http://www.w3.org/2001/04/xmldsig-more#sha224'),
    'sha256': ('http://www.w3.org/2001/04/xmldsig-more#rsa-sha256', 'http://www.w3.org/2001/04/xmlenc#sha256'),
    'sha384': ('http://www.w3.org/2001/04/xmldsig-more#rsa-sha384', 'http://www.w3.org/2001/04/xmldsig-more#sha384'),
    'sha512': ('http://www.w3.org/2001/04/xmldsig-more#rsa-sha512', 'http://www.w3.org/2001/04/xmlenc#sha512'),
}


def esc(s):
    return s.replace('&', '&amp;').replace('<', '&lt;').replace('>', '&gt;')


def esca(s):
    return s.replace('&', '&amp;').replace('<', '&lt;').replace('"', '&quot;')


def ts(t, style='Z'):
    base = _time.strftime('%Y-%m-%dT%H:%M:%S', env._real_gmtime(t))
    if style == 'Z':
        return base + 'Z'
    if style == '.000Z':
        return base + '.000Z'
    if style == '.999Z':
        return base + '.999Z'
    if style == 'none':
        return base
    if style == '+00:00':
        return base + '+00:00'
    if style == '+01:00':
        return _time.strftime('%Y-%m-%dT%H:%M:%S', env._real_gmtime(t + 3600)) + '+01:00'
    if len(style) == 6 and style[0] in '+-' and style[3] == ':':
        # the same instant written in another zone
        off = (int(style[1:3]) * 3600 + int(style[4:6]) * 60) * (1 if style[0] == '+' else -1)
        return _time.strftime('%Y-%m-%dT%H:%M:%S', env._real_gmtime(t + off)) + style
    raise ValueError(style)


def keyinfo_xml(spec):
    """spec: None | 'x509:<keyname>' | 'rsakv:<keyname>' | raw xml"""
    if not spec:
        return ''
    if spec.startswith('x509:'):
        return ('<ds:KeyInfo><ds:X509Data><ds:X509Certificate>%s</ds:X509Certificate></ds:X509Data></ds:KeyInfo>'
                % world.cert_b64(spec[5:]))
    if spec.startswith('rsakv:'):
        nums = world.pub(spec[6:]).public_numbers()

        def b(i):
            return base64.b64encode(i.to_bytes((i.bit_length() + 7) // 8, 'big')).decode()
        return ('<ds:KeyInfo><ds:KeyValue><ds:RSAKeyValue><ds:Modulus>%s</ds:Modulus><ds:Exponent>%s</ds:Exponent>'
                '</ds:RSAKeyValue></ds:KeyValue></ds:KeyInfo>' % (b(nums.n), b(nums.e)))
    return spec


def sig_template(ref_id, alg='sha256', keyinfo=None, digalg=None):
    sm, dm = SIG_ALGS[alg]
    if digalg:
        dm = SIG_ALGS[digalg][1]
    return ('<ds:Signature xmlns:ds="%s"><ds:SignedInfo><ds:CanonicalizationMethod '
            'Algorithm="http://www.w3.org/2001/10/xml-exc-c14n#"/><ds:SignatureMethod Algorithm="%s"/>'
            '<ds:Reference URI="#%s"><ds:Transforms><ds:Transform '
            'Algorithm="http://www.w3.org/2000/09/xmldsig#enveloped-signature"/><ds:Transform '
            'Algorithm="http://www.w3.org/2001/10/xml-exc-c14n#"/></ds:Transforms><ds:DigestMethod '
            'Algorithm="%s"/><ds:DigestValue/></ds:Reference></ds:SignedInfo><ds:SignatureValue/>%s</ds:Signature>'
            % (DS, sm, ref_id, dm, keyinfo_xml(keyinfo)))


def confirmation(now, method=BEARER, irt='req1', recipient=ACS_POST, nooa=300, nb=None, address=None,
                 has_data=True, style='Z', extra=''):
    if not has_data:
        return '<saml:SubjectConfirmation Method="%s"/>' % method
    at = ''
    if irt is not None:
        at += ' InResponseTo="%s"' % esca(irt)
    if nooa is not None:
        at += ' NotOnOrAfter="%s"' % ts(now + nooa, style)
    if nb is not None:
        at += ' NotBefore="%s"' % ts(now + nb, style)
    if recipient is not None:
        at += ' Recipient="%s"' % esca(recipient)
    if address is not None:
        at += ' Address="%s"' % esca(address)
    return ('<saml:SubjectConfirmation Method="%s"><saml:SubjectConfirmationData%s>%s</saml:SubjectConfirmationData>'
            '</saml:SubjectConfirmation>' % (method, at, extra))


def attribute(name, values, name_format=NAME_FORMAT_BASIC, friendly=None):
    vs = ''.join('<saml:AttributeValue>%s</saml:AttributeValue>' % esc(v) for v in values)
    fr = ' FriendlyName="%s"' % esca(friendly) if friendly else ''
    return '<saml:Attribute Name="%s" NameFormat="%s"%s>%s</saml:Attribute>' % (esca(name), name_format, fr, vs)


DEFAULT_ATTRS = (('givenName', ('Alice',)), ('mail', ('alice@example.org', 'a@example.org')))


def assertion(now, aid='A1', issuer=IDP_A, subject='alice', name_format=NF_TRANSIENT, confirmations=None,
              cond=True, cond_nb=-60, cond_nooa=300, audiences=((SP_X,),), authn=True, authn_instant=0,
              session_index='s1', session_nooa=None, class_ref=PASSWORD, authority=None, attrs=DEFAULT_ATTRS,
              advice='', sign=None, alg='sha256', keyinfo=None, style='Z', issue_offset=0, version='2.0',
              subject_extra='', cond_extra='', sp_name_qualifier=None, name_qualifier=None, extra_first='',
              sig_ref=None, digalg=None, more_authn=()):
    """`sign` only inserts the template; build() fills it.  more_authn: SessionNotOnOrAfter offsets (or None) of further
    AuthnStatements placed after the first."""
    if confirmations is None:
        confirmations = [confirmation(now, style=style)]
    iss = '<saml:Issuer>%s</saml:Issuer>' % esc(issuer) if issuer is not None else ''
    sg = sig_template(sig_ref or aid, alg, keyinfo, digalg) if sign else ''
    nq = ''
    if name_qualifier:
        nq += ' NameQualifier="%s"' % esca(name_qualifier)
    if sp_name_qualifier:
        nq += ' SPNameQualifier="%s"' % esca(sp_name_qualifier)
    subj = ''
    if subject is not None:
        subj = ('<saml:Subject><saml:NameID Format="%s"%s>%s</saml:NameID>%s%s</saml:Subject>'
                % (name_format, nq, esc(subject), ''.join(confirmations), subject_extra))
    cnd = ''
    if cond:
        at = ''
        if cond_nb is not None:
            at += ' NotBefore="%s"' % ts(now + cond_nb, style)
        if cond_nooa is not None:
            at += ' NotOnOrAfter="%s"' % ts(now + cond_nooa, style)
        aud = ''.join('<saml:AudienceRestriction>%s</saml:AudienceRestriction>'
                      % ''.join('<saml:Audience>%s</saml:Audience>' % esc(a) for a in r) for r in audiences)
        cnd = '<saml:Conditions%s>%s%s</saml:Conditions>' % (at, aud, cond_extra)
    adv = '<saml:Advice>%s</saml:Advice>' % advice if advice else ''
    au = ''
    if authn:
        at = ' AuthnInstant="%s"' % ts(now + authn_instant, style)
        if session_index is not None:
            at += ' SessionIndex="%s"' % esca(session_index)
        if session_nooa is not None:
            at += ' SessionNotOnOrAfter="%s"' % ts(now + session_nooa, style)
        ctx = ''
        if class_ref:
            ctx += '<saml:AuthnContextClassRef>%s</saml:AuthnContextClassRef>' % esc(class_ref)
        if authority:
            ctx += ''.join('<saml:AuthenticatingAuthority>%s</saml:AuthenticatingAuthority>' % esc(a)
                           for a in authority)
        au = '<saml:AuthnStatement%s><saml:AuthnContext>%s</saml:AuthnContext></saml:AuthnStatement>' % (at, ctx)
        for n, off in enumerate(more_authn):
            at2 = ' AuthnInstant="%s" SessionIndex="s%d"' % (ts(now + authn_instant, style), n + 2)
            if off is not None:
                at2 += ' SessionNotOnOrAfter="%s"' % ts(now + off, style)
            au += '<saml:AuthnStatement%s><saml:AuthnContext>%s</saml:AuthnContext></saml:AuthnStatement>' % (at2, ctx)
    ast = ''
    if attrs:
        ast = '<saml:AttributeStatement>%s</saml:AttributeStatement>' % ''.join(
            attribute(a[0], a[1], *(a[2:])) for a in attrs)
    return ('<saml:Assertion xmlns:saml="%s" ID="%s" IssueInstant="%s" Version="%s">%s%s%s%s%s%s%s%s</saml:Assertion>'
            % (SAML, esca(aid), ts(now + issue_offset, style), esca(version), iss, sg, extra_first, subj, cnd, adv,
               au, ast))


def version_attr(version):
    """None = the (required) Version attribute is left out altogether"""
    return '' if version is None else ' Version="%s"' % esca(version)


def response(now, assertions=(), rid='R1', issuer=IDP_A, irt='req1', dest=ACS_POST, status=STATUS_SUCCESS,
             status2=None, status3=None, status_msg=None, version='2.0', sign=None, alg='sha256', keyinfo=None, style='Z',
             issue_offset=0, extensions='', has_status=True, root='Response', extra_last='', digalg=None):
    at = ' ID="%s"%s IssueInstant="%s"' % (esca(rid), version_attr(version), ts(now + issue_offset, style))
    if irt is not None:
        at += ' InResponseTo="%s"' % esca(irt)
    if dest is not None:
        at += ' Destination="%s"' % esca(dest)
    iss = '<saml:Issuer>%s</saml:Issuer>' % esc(issuer) if issuer is not None else ''
    sg = sig_template(rid, alg, keyinfo, digalg) if sign else ''
    ext = '<samlp:Extensions>%s</samlp:Extensions>' % extensions if extensions else ''
    st = ''
    if has_status:
        inner = ''
        if status2 is not None:
            third = '<samlp:StatusCode Value="%s"/>' % esca(status3) if status3 is not None else ''
            inner = '<samlp:StatusCode Value="%s">%s</samlp:StatusCode>' % (esca(status2), third) if third else '<samlp:StatusCode Value="%s"/>' % esca(status2)
        code = '<samlp:StatusCode Value="%s">%s</samlp:StatusCode>' % (esca(status), inner) if status is not None else ''
        msg = '<samlp:StatusMessage>%s</samlp:StatusMessage>' % esc(status_msg) if status_msg is not None else ''
        st = '<samlp:Status>%s%s</samlp:Status>' % (code, msg)
    return ('<samlp:%s xmlns:samlp="%s" xmlns:saml="%s"%s>%s%s%s%s%s%s</samlp:%s>'
            % (root, SAMLP, SAML, at, iss, sg, ext, st, ''.join(assertions), extra_last, root))


ENC_ALGS = {
    'tripledes': ('http://www.w3.org/2001/04/xmlenc#tripledes-cbc', 'des-192'),
    'aes128': ('http://www.w3.org/2001/04/xmlenc#aes128-cbc', 'aes-128'),
    'aes256': ('http://www.w3.org/2001/04/xmlenc#aes256-cbc', 'aes-256'),
}
KT = {'rsa15': 'http://www.w3.org/2001/04/xmlenc#rsa-1_5', 'oaep': 'http://www.w3.org/2001/04/xmlenc#rsa-oaep-mgf1p'}


def enc_template(data_alg='tripledes', key_alg='rsa15'):
    return ('<xenc:EncryptedData xmlns:xenc="%s" Type="http://www.w3.org/2001/04/xmlenc#Element">'
            '<xenc:EncryptionMethod Algorithm="%s"/><ds:KeyInfo xmlns:ds="%s"><xenc:EncryptedKey>'
            '<xenc:EncryptionMethod Algorithm="%s"/><xenc:CipherData><xenc:CipherValue/></xenc:CipherData>'
            '</xenc:EncryptedKey></ds:KeyInfo><xenc:CipherData><xenc:CipherValue/></xenc:CipherData>'
            '</xenc:EncryptedData>' % (XENC, ENC_ALGS[data_alg][0], DS, KT[key_alg]))


def sign(xml, node_id, keyname):
    return xmlsec.sign_xml(xml, node_id, world.priv(keyname))


def encrypt_assertions(xml, certname, which=None, data_alg='tripledes', key_alg='rsa15'):
    """Wrap each direct-child Assertion of the root (or those whose ID is in `which`) into an EncryptedAssertion
    and encrypt it for `certname`."""
    doc = xmlsec.parse_doc(xml)
    root = doc.documentElement
    for a in [c for c in xmlsec.elems(root) if c.localName == 'Assertion' and c.namespaceURI == SAML]:
        if which is not None and a.getAttribute('ID') not in which:
            continue
        wrap = doc.createElementNS(SAML, 'saml:EncryptedAssertion')
        root.replaceChild(wrap, a)
        wrap.appendChild(a)
        xmlsec.encrypt_node(doc, a, enc_template(data_alg, key_alg), world.pub(certname),
                            ENC_ALGS[data_alg][1])
    return root.toxml()


def build(now, resp=None, assertions=None, sign_resp=None, sign_ass=None, encrypt=None, alg='sha256',
          resp_keyinfo=None, ass_keyinfo=None, mutate_after_ass_sign=None, mutate_after_enc=None,
          mutate_final=None, data_alg='tripledes', key_alg='rsa15'):
    """Full pipeline: assertion(s) [signed by sign_ass key] -> [encrypt for cert] -> response [signed].
    assertions: list of kwargs dicts for assertion(); resp: kwargs for response().
    mutate_*: optional callables str->str applied at that stage (corruptions)."""
    resp = dict(resp or {})
    assertions = [dict(a) for a in (assertions if assertions is not None else [{}])]
    axml = []
    for a in assertions:
        a.setdefault('alg', alg)
        if sign_ass and 'sign' not in a:
            a['sign'] = True
            a.setdefault('keyinfo', ass_keyinfo)
        axml.append(assertion(now, **a))
    resp.setdefault('alg', alg)
    if sign_resp:
        resp['sign'] = True
        resp.setdefault('keyinfo', resp_keyinfo)
    x = response(now, axml, **resp)
    for a in assertions:
        if a.get('sign'):
            x = sign(x, a.get('aid', 'A1'), a.get('sign_key', sign_ass if isinstance(sign_ass, str) else 'idpA'))
    if mutate_after_ass_sign:
        x = mutate_after_ass_sign(x)
    if encrypt:
        x = encrypt_assertions(x, encrypt, data_alg=data_alg, key_alg=key_alg)
    if mutate_after_enc:
        x = mutate_after_enc(x)
    if sign_resp:
        x = sign(x, resp.get('rid', 'R1'), sign_resp if isinstance(sign_resp, str) else 'idpA')
    if mutate_final:
        x = mutate_final(x)
    return x


def b64(xml):
    return base64.b64encode(xml.encode('utf-8')).decode('ascii')


# ---------------------------------------------------------------- requests

REQ_BODIES = {
    'AuthnRequest': '<samlp:NameIDPolicy Format="%s" AllowCreate="true"/>' % NF_TRANSIENT,
    'LogoutRequest': '<saml:NameID Format="%s">alice</saml:NameID><samlp:SessionIndex>s1</samlp:SessionIndex>' % NF_TRANSIENT,
    'AttributeQuery': '<saml:Subject><saml:NameID Format="%s">alice</saml:NameID></saml:Subject>' % NF_TRANSIENT,
    'AuthnQuery': '<saml:Subject><saml:NameID Format="%s">alice</saml:NameID></saml:Subject>' % NF_TRANSIENT,
    'AuthzDecisionQuery': ('<saml:Subject><saml:NameID Format="%s">alice</saml:NameID></saml:Subject>'
                           '<saml:Action Namespace="urn:oasis:names:tc:SAML:1.0:action:rwedc">Read</saml:Action>' % NF_TRANSIENT),
    'NameIDMappingRequest': ('<saml:NameID Format="%s">alice</saml:NameID><samlp:NameIDPolicy Format="%s"/>'
                             % (NF_TRANSIENT, 'urn:oasis:names:tc:SAML:2.0:nameid-format:persistent')),
    'ManageNameIDRequest': '<saml:NameID Format="%s">alice</saml:NameID><samlp:NewID>new-id</samlp:NewID>' % NF_TRANSIENT,
    'AssertionIDRequest': '<saml:AssertionIDRef>A1</saml:AssertionIDRef>',
}
REQ_EXTRA_ATTRS = {'AuthzDecisionQuery': ' Resource="https://resource.example/x"'}


def request(now, kind='AuthnRequest', rid='Q1', issuer=SP_X, dest=None, version='2.0', issue_offset=0, sign=None,
            alg='sha256', keyinfo=None, acs_url=None, acs_index=None, protocol_binding=None, body=None, style='Z',
            extra_attrs='', extensions='', root=None, et_prefixes=False):
    at = ' ID="%s"%s IssueInstant="%s"' % (esca(rid), version_attr(version), ts(now + issue_offset, style))
    if dest is not None:
        at += ' Destination="%s"' % esca(dest)
    if acs_url is not None:
        at += ' AssertionConsumerServiceURL="%s"' % esca(acs_url)
    if acs_index is not None:
        at += ' AssertionConsumerServiceIndex="%s"' % esca(str(acs_index))
    if protocol_binding is not None:
        at += ' ProtocolBinding="%s"' % esca(protocol_binding)
    at += REQ_EXTRA_ATTRS.get(kind, '') + extra_attrs
    iss = '<saml:Issuer>%s</saml:Issuer>' % esc(issuer) if issuer is not None else ''
    sg = sig_template(rid, alg, keyinfo) if sign else ''
    ext = '<samlp:Extensions>%s</samlp:Extensions>' % extensions if extensions else ''
    b = REQ_BODIES[kind] if body is None else body
    tag = root or kind
    x = ('<samlp:%s xmlns:samlp="%s" xmlns:saml="%s"%s>%s%s%s%s</samlp:%s>' % (tag, SAMLP, SAML, at, iss, sg, ext, b, tag))
    if et_prefixes:
        # prefixes as ElementTree would assign them: the message then survives pysaml2's re-serialising SOAP reader
        from xml.etree import ElementTree as _ET
        x = _ET.tostring(_ET.fromstring(x), encoding='unicode')
    if sign:
        x = xmlsec.sign_xml(x, rid, world.priv(sign if isinstance(sign, str) else 'spX'))
    return x


def enc_redirect(xml):
    import zlib
    c = zlib.compressobj(9, zlib.DEFLATED, -15)
    return base64.b64encode(c.compress(xml.encode('utf-8')) + c.flush()).decode('ascii')


def enc_post(xml):
    return base64.b64encode(xml.encode('utf-8')).decode('ascii')


def enc_soap(xml):
    return ('<SOAP-ENV:Envelope xmlns:SOAP-ENV="http://schemas.xmlsoap.org/soap/envelope/"><SOAP-ENV:Body>%s'
            '</SOAP-ENV:Body></SOAP-ENV:Envelope>' % xml)
