"""Check runner: tiers, worker pool, evidence, known findings, replay files.

usage: python -m vp.runner <ID> [quick|thorough] [--replay F] [--workers N] [--no-recheck]
"""
import atexit
import hashlib
import importlib
import json
import multiprocessing
import os
import shutil
import sys
import tempfile
import traceback

from vp import env

ROOT = os.path.dirname(os.path.dirname(os.path.abspath(__file__)))
KNOWN = os.path.join(ROOT, 'KNOWN_FINDINGS.txt')


class HarnessError(Exception):
    pass


def load_known(prop):
    out = []
    if not os.path.exists(KNOWN):
        return out
    for line in open(KNOWN, encoding='utf-8'):
        line = line.strip()
        if not line.startswith('finding:'):
            continue
        body = line[len('finding:'):].strip()
        if not body.startswith('property=' + prop + ' '):
            continue
        body = body[len('property=' + prop):].strip()
        if not body.startswith('match='):
            continue
        js, _, what = body[len('match='):].partition(' :: ')
        out.append({'match': json.loads(js), 'what': what.strip(), 'hits': 0})
    return out


def _match_one(pat, val):
    if isinstance(pat, dict):
        if '$in' in pat:
            return val in pat['$in']
        if '$prefix' in pat:
            return isinstance(val, (list, str)) and list(val[:len(pat['$prefix'])]) == list(pat['$prefix'])
        if '$contains' in pat:
            try:
                return pat['$contains'] in val
            except TypeError:
                return False
        if '$ne' in pat:
            return val != pat['$ne']
        return False
    return pat == val


def matches(pattern, key):
    for k, v in pattern.items():
        if k not in key:
            return False
        if not _match_one(v, key[k]):
            return False
    return True


_POOL_FN = None


def _pool_call(item):
    return _POOL_FN(item)


class Ctx(object):
    def __init__(self, prop, tier, workers, recheck=True):
        self.prop = prop
        self.tier = tier
        self.thorough = (tier == 'thorough')
        self.seed = int(os.environ.get('VERIF_SEED', '0') or 0)
        self.workers = workers
        self.do_recheck = recheck
        self.tmp = tempfile.mkdtemp(prefix='vp-%s-' % prop)
        atexit.register(shutil.rmtree, self.tmp, True)
        self.violations = []       # (key, detail)
        self.known = load_known(prop)
        self.notes = []
        self.rechecked = 0
        self.caps = []
        self.nondeterministic = []

    # ---- parallel map (fork pool; fn must be a module-level function)
    def pmap(self, fn, items, chunksize=None):
        global _POOL_FN
        items = list(items)
        if not items:
            return []
        if self.workers <= 1 or len(items) < 4:
            return [fn(i) for i in items]
        _POOL_FN = fn
        ctxm = multiprocessing.get_context('fork')
        n = min(self.workers, len(items))
        if chunksize is None:
            chunksize = max(1, min(64, len(items) // (n * 4) or 1))
        with ctxm.Pool(n) as pool:
            return pool.map(_pool_call, items, chunksize)

    def recheck(self, fn, items, results, n=48):
        """Determinism: re-evaluate the first n items in a different process; differences are harness errors."""
        if not self.do_recheck:
            return
        global _POOL_FN
        items = list(items)[:n]
        if not items:
            return
        _POOL_FN = fn
        ctxm = multiprocessing.get_context('fork')
        with ctxm.Pool(1) as pool:
            again = pool.map(_pool_call, items, 8)
        for it, a, b in zip(items, results, again):
            if json.dumps(a, sort_keys=True, default=repr) != json.dumps(b, sort_keys=True, default=repr):
                # Not fatal by itself: a library that carries state from one message to the next produces exactly
                # this.  A silent result is not trusted in that case (exit 2); violations found are still reported.
                self.nondeterministic.append('%r: %r vs %r' % (it, a, b))
        self.rechecked += len(items)

    def violation(self, key, detail=None):
        self.violations.append((key, detail or {}))

    def note(self, s):
        self.notes.append(s)

    def cap(self, s):
        self.caps.append(s)


def write_evidence(ctx, level, coverage, assumptions, wall, n_viol):
    d = os.path.join(ROOT, 'evidence')
    os.makedirs(d, exist_ok=True)
    cov = dict(coverage)
    cov.setdefault('determinism_rechecked', ctx.rechecked)
    if ctx.caps:
        cov['caps_hit'] = ctx.caps
    if ctx.notes:
        cov['notes'] = ctx.notes
    ev = {'property_id': ctx.prop, 'tier': ctx.tier, 'seed': ctx.seed, 'level': level,
          'coverage': cov, 'assumptions': assumptions, 'wall_s': round(wall, 2), 'violations': n_viol}
    p = os.path.join(d, ctx.prop + '.json')
    tmp = p + '.tmp%d' % os.getpid()
    with open(tmp, 'w', encoding='utf-8') as f:
        json.dump(ev, f, indent=1, sort_keys=True, default=repr, ensure_ascii=True)
        f.write('\n')
    os.replace(tmp, p)
    return p


def write_replay(ctx, key, detail):
    d = os.path.join(ROOT, 'replays', ctx.prop)
    os.makedirs(d, exist_ok=True)
    blob = json.dumps(key, sort_keys=True, default=repr)
    h = hashlib.sha1(blob.encode()).hexdigest()[:12]
    p = os.path.join(d, h + '.json')
    with open(p, 'w', encoding='utf-8') as f:
        json.dump({'property': ctx.prop, 'tier': ctx.tier, 'seed': ctx.seed, 'witness': key, 'detail': detail},
                  f, indent=1, sort_keys=True, default=repr)
        f.write('\n')
    return p


def main(argv=None):
    argv = list(sys.argv[1:] if argv is None else argv)
    if not argv:
        print(__doc__)
        return 2
    prop = argv[0].upper()
    tier = os.environ.get('VERIF_TIER') or 'quick'
    replay = None
    workers = int(os.environ.get('VERIF_WORKERS', '0') or 0) or min(16, os.cpu_count() or 1)
    recheck = True
    i = 1
    while i < len(argv):
        a = argv[i]
        if a in ('quick', 'thorough'):
            tier = a
        elif a == '--replay':
            replay = argv[i + 1]
            i += 1
        elif a == '--workers':
            workers = int(argv[i + 1])
            i += 1
        elif a == '--no-recheck':
            recheck = False
        else:
            print('unknown argument %r' % a, file=sys.stderr)
            return 2
        i += 1
    t0 = env.real_time()
    try:
        env.install()
        mod = importlib.import_module('vp.checks.%s' % prop.lower())
    except Exception:
        traceback.print_exc()
        print('HARNESS-ERROR property=%s could not set up (import failure of library or harness)' % prop)
        return 2
    ctx = Ctx(prop, tier, workers, recheck)
    try:
        if replay:
            w = json.load(open(replay, encoding='utf-8'))
            res = mod.replay(ctx, w['witness'])
            print('REPLAY property=%s reproduced=%s observation=%s' % (prop, bool(res.get('violation')),
                                                                       json.dumps(res, default=repr)[:2000]))
            if res.get('violation'):
                print('VIOLATION property=%s replay=%s' % (prop, replay))
                return 1
            return 0
        out = mod.run(ctx)
    except HarnessError as e:
        print('HARNESS-ERROR property=%s %s' % (prop, e))
        return 2
    except Exception:
        traceback.print_exc()
        print('HARNESS-ERROR property=%s internal error' % prop)
        return 2
    wall = env.real_time() - t0
    # classify violations
    unlisted = []
    for key, detail in ctx.violations:
        hit = None
        for k in ctx.known:
            if matches(k['match'], key):
                hit = k
                break
        if hit is not None:
            hit['hits'] += 1
        else:
            unlisted.append((key, detail))
    cov = out['coverage']
    cov['known_finding_hits'] = {k['what'][:80]: k['hits'] for k in ctx.known if k['hits']}
    write_evidence(ctx, out['level'], cov, out.get('assumptions', []), wall, len(unlisted))
    for k in ctx.known:
        if k['hits']:
            print('KNOWN-FINDING: property=%s %s (%d witnesses this run)' % (prop, k['what'], k['hits']))
    summary = {k: v for k, v in cov.items() if isinstance(v, (int, float, bool, str)) and k != 'rule'}
    print('%s %s: %s wall=%.1fs' % (prop, tier, json.dumps(summary, sort_keys=True), wall))
    if unlisted:
        seen = set()
        shown = 0
        for key, detail in unlisted:
            p = write_replay(ctx, key, detail)
            if p in seen:
                continue
            seen.add(p)
            if shown < 25:
                print('VIOLATION property=%s replay=%s' % (prop, p))
                print('  witness: %s' % json.dumps(key, sort_keys=True, default=repr)[:600])
                shown += 1
        grp = {}
        for key, _d in unlisted:
            g = tuple('%s=%s' % (f, key.get(f)) for f in ('kind', 'why', 'start', 'enc') if f in key)
            grp[g] = grp.get(g, 0) + 1
        for g, n in sorted(grp.items(), key=lambda t: -t[1])[:30]:
            print('  group %s: %d' % (' '.join(g), n))
        print('%d unlisted violation(s), %d distinct' % (len(unlisted), len(seen)))
        return 1
    if ctx.nondeterministic:
        print('HARNESS-ERROR property=%s evaluation is not a deterministic function of its input (outcomes depend on '
              'what was evaluated before): %s' % (prop, ctx.nondeterministic[0][:1500]))
        return 2
    return 0


if __name__ == '__main__':
    sys.exit(main())
