"""Oracles: acceptance observation, strict signature verifier, reference response reader."""
import base64
import calendar
import re

from vp import xmlsec, world
from vp.c14n import canonicalize
from vp.xmlsec import DS, XENC, elems, child, children, text, dfs
from cryptography.hazmat.primitives.asymmetric import padding

SAML = 'urn:oasis:names:tc:SAML:2.0:assertion'
SAMLP = 'urn:oasis:names:tc:SAML:2.0:protocol'
ENVELOPED = 'http://www.w3.org/2000/09/xmldsig#enveloped-signature'
EXC = 'http://www.w3.org/2001/10/xml-exc-c14n#'


def observe_identity(r):
    si = r.session_info()
    nid = si.get('name_id')
    ident = {
        'name_id': None if nid is None else [nid.text, nid.format, nid.name_qualifier, nid.sp_name_qualifier],
        'ava': {k: sorted(v) if isinstance(v, list) else v for k, v in (si.get('ava') or {}).items()},
        'came_from': si.get('came_from'),
        'issuer': si.get('issuer'),
        'not_on_or_after': si.get('not_on_or_after'),
        'authn_info': [[a, list(b)] for a, b, _c in (si.get('authn_info') or [])],
        'session_index': si.get('session_index'),
        'in_response_to': r.in_response_to,
        'assertion_id': getattr(r.assertion, 'id', None),
    }
    return ident


def accept_response(sp, xml, binding=world.BINDING_HTTP_POST, outstanding=None, conv_info=None,
                    outstanding_certs=None, encoded=False, parse='authn'):
    """Run the real SP acceptance path.  ACCEPT iff an object with an adopted assertion comes back and
    session_info() works."""
    if outstanding is None:
        outstanding = {'req1': '/home', 'req2': '/other'}
    if not encoded:
        if binding == world.BINDING_HTTP_REDIRECT:
            import zlib
            data = xml.encode('utf-8')
            c = zlib.compressobj(9, zlib.DEFLATED, -15)
            msg = base64.b64encode(c.compress(data) + c.flush()).decode()
        elif binding == world.BINDING_SOAP:
            msg = ('<SOAP-ENV:Envelope xmlns:SOAP-ENV="http://schemas.xmlsoap.org/soap/envelope/"><SOAP-ENV:Body>'
                   '%s</SOAP-ENV:Body></SOAP-ENV:Envelope>' % xml)
        else:
            msg = base64.b64encode(xml.encode('utf-8')).decode()
    else:
        msg = xml
    try:
        kw = {}
        if conv_info is not None:
            kw['conv_info'] = conv_info
        if outstanding_certs is not None:
            kw['outstanding_certs'] = outstanding_certs
        r = sp.parse_authn_request_response(msg, binding, dict(outstanding), **kw)
        if r is None:
            return {'accept': False, 'exc': 'None'}
        if r.assertion is None:
            return {'accept': False, 'exc': 'NoAssertion'}
        ident = observe_identity(r)
        return {'accept': True, 'exc': None, 'identity': ident}
    except Exception as e:
        return {'accept': False, 'exc': type(e).__name__, 'msg': str(e)[:120]}


# ------------------------------------------------------------ strict verifier

def strict_signature(doc, el, certnames, id_attr='ID'):
    """Transcription of the C01 statement for element `el` of minidom document `doc`.
    Returns (ok, reason)."""
    sigs = children(el, DS, 'Signature')
    if len(sigs) != 1:
        return False, 'signature-children=%d' % len(sigs)
    sig = sigs[0]
    si = child(sig, DS, 'SignedInfo')
    if si is None:
        return False, 'no-signedinfo'
    refs = children(si, DS, 'Reference')
    if len(refs) != 1:
        return False, 'references=%d' % len(refs)
    ref = refs[0]
    if not el.hasAttribute(id_attr) or not el.getAttribute(id_attr):
        return False, 'no-id'
    myid = el.getAttribute(id_attr)
    if ref.getAttribute('URI') != '#' + myid:
        return False, 'reference-uri'
    n = 0
    for e in dfs(doc.documentElement):
        if e.hasAttribute(id_attr) and e.getAttribute(id_attr) == myid:
            n += 1
    if n != 1:
        return False, 'id-not-unique'
    tr = child(ref, DS, 'Transforms')
    algs = [t.getAttribute('Algorithm') for t in elems(tr)] if tr is not None else []
    if sorted(algs) != sorted([ENVELOPED, EXC]) or algs[0] != ENVELOPED:
        return False, 'transforms'
    for t in elems(tr):
        if list(elems(t)):
            return False, 'transform-params'
    dm = child(ref, DS, 'DigestMethod')
    dalg = dm.getAttribute('Algorithm') if dm is not None else None
    if dalg not in xmlsec.DIG:
        return False, 'digest-alg'
    data = canonicalize(el, exclude=sig, exclusive=True)
    try:
        dv = base64.b64decode(text(child(ref, DS, 'DigestValue')))
    except Exception:
        return False, 'digest-b64'
    if xmlsec.DIG[dalg](data).digest() != dv:
        return False, 'digest-mismatch'
    smn = child(si, DS, 'SignatureMethod')
    sm = smn.getAttribute('Algorithm') if smn is not None else None
    if sm not in xmlsec.SIGH:
        return False, 'sig-alg'
    cm = child(si, DS, 'CanonicalizationMethod')
    if cm is None or cm.getAttribute('Algorithm') not in xmlsec.C14N_ALGS:
        return False, 'c14n-alg'
    try:
        sidata = xmlsec.c14n_signed_info(si)
        sv = base64.b64decode(text(child(sig, DS, 'SignatureValue')))
    except Exception:
        return False, 'sigvalue'
    for cn in certnames:
        try:
            world.pub(cn).verify(sv, sidata, padding.PKCS1v15(), xmlsec.SIGH[sm]())
            return True, cn
        except Exception:
            continue
    return False, 'no-key-verifies'


# ------------------------------------------------------- reference reader

def _t(e):
    return text(e).strip() if e is not None else None


def read_assertion(a):
    """Identity a conforming reader finds in an Assertion element."""
    subj = child(a, SAML, 'Subject')
    nid = child(subj, SAML, 'NameID') if subj is not None else None
    ava = {}
    for st in children(a, SAML, 'AttributeStatement'):
        for at in children(st, SAML, 'Attribute'):
            name = at.getAttribute('FriendlyName') or at.getAttribute('Name')
            ava.setdefault(name, [])
            for v in children(at, SAML, 'AttributeValue'):
                ava[name].append(text(v).strip())
    cond = child(a, SAML, 'Conditions')
    return {
        'id': a.getAttribute('ID'),
        'issuer': _t(child(a, SAML, 'Issuer')),
        'name_id': None if nid is None else [_t(nid), nid.getAttribute('Format') or None,
                                             nid.getAttribute('NameQualifier') or None,
                                             nid.getAttribute('SPNameQualifier') or None],
        'ava': {k: sorted(v) for k, v in ava.items()},
        'cond_nooa': cond.getAttribute('NotOnOrAfter') if cond is not None and cond.hasAttribute('NotOnOrAfter') else None,
    }


def identity_matches(observed, ref):
    """Does the identity pysaml2 reports equal what the reference reader finds in assertion `ref`?"""
    if observed.get('name_id') is None or ref.get('name_id') is None:
        return False
    if observed['name_id'][0] != ref['name_id'][0]:
        return False
    oa = {k.lower(): sorted(v) for k, v in observed.get('ava', {}).items()}
    ra = {k.lower(): sorted(v) for k, v in ref.get('ava', {}).items()}
    # attribute converters may rename; compare value multisets
    return sorted(map(tuple, oa.values())) == sorted(map(tuple, ra.values()))


def direct_assertions(root):
    return [c for c in elems(root) if c.namespaceURI == SAML and c.localName == 'Assertion']


def decrypt_all(xml, keynames, limit=8):
    """Reference decryption with the model's library call: repeatedly decrypt the first EncryptedData with
    any of the given private keys.  Returns (xml, fully_decrypted)."""
    for _ in range(limit):
        doc = xmlsec.parse_doc(xml)
        if xmlsec.find_node(doc.documentElement, XENC, 'EncryptedData') is None:
            return xml, True
        done = False
        for k in keynames:
            try:
                xml = xmlsec.decrypt_first(xml, world.priv(k))
                done = True
                break
            except xmlsec.Fail:
                continue
        if not done:
            return xml, False
    return xml, False


def unwrap_encrypted_assertions(doc):
    """After decryption: <EncryptedAssertion><Assertion/></EncryptedAssertion> -> list of those assertions."""
    out = []
    for ea in [c for c in elems(doc.documentElement) if c.localName == 'EncryptedAssertion']:
        for a in elems(ea):
            if a.namespaceURI == SAML and a.localName == 'Assertion':
                out.append(a)
    return out


def parse_time(s):
    """Independent xs:dateTime reader -> epoch seconds (float, UTC); None if malformed."""
    m = re.match(r'^(-?\d{4,})-(\d\d)-(\d\d)T(\d\d):(\d\d):(\d\d)(\.\d+)?(Z|[+-]\d\d:\d\d)?$', s)
    if not m:
        return None
    y, mo, d, h, mi, sec = (int(m.group(i)) for i in range(1, 7))
    frac = float(m.group(7)) if m.group(7) else 0.0
    t = calendar.timegm((y, mo, d, h, mi, sec, 0, 0, 0)) + frac
    tz = m.group(8)
    if tz and tz != 'Z':
        sign = 1 if tz[0] == '+' else -1
        t -= sign * (int(tz[1:3]) * 3600 + int(tz[4:6]) * 60)
    return t
