"""Cooperative thread scheduler + preemption-bounded exhaustive schedule exploration (CHESS-style).

Each harness thread runs under sys.settrace: line events inside the traced package directory, opcode events inside
the named critical functions (pkg_dir may be a tuple of path prefixes: single files restrict the line events).  At every event the thread parks on its own semaphore; the controller decides who
runs next.  Default choice = keep running the current thread; switching away from a still-enabled thread costs one
preemption.  explore() enumerates every schedule with at most `bound` preemptions."""
import os
import sys
import threading


class Divergence(Exception):
    pass


class Sched(object):
    def __init__(self, bodies, prefix, pkg_dir, critical):
        self.bodies = bodies
        self.prefix = prefix
        self.pkg = pkg_dir
        self.critical = critical
        n = len(bodies)
        self.sem = [threading.Semaphore(0) for _ in range(n)]
        self.ctl = threading.Semaphore(0)
        self.done = [False] * n
        self.points = []      # (enabled order, current still enabled)
        self.choices = []
        self.results = [None] * n
        self.where = [None] * n
        self.trace_log = []

    def _trace(self, tid):
        def local(frame, event, arg):
            if event == 'line' or event == 'opcode':
                self.where[tid] = (os.path.basename(frame.f_code.co_filename), frame.f_code.co_name, frame.f_lineno,
                                   frame.f_lasti if event == 'opcode' else -1)
                self.ctl.release()
                self.sem[tid].acquire()
            return local

        def glob(frame, event, arg):
            if not frame.f_code.co_filename.startswith(self.pkg):
                return None
            if frame.f_code.co_name in self.critical:
                frame.f_trace_opcodes = True
            return local
        return glob

    def _run(self, tid):
        self.sem[tid].acquire()
        sys.settrace(self._trace(tid))
        try:
            self.results[tid] = ('ok', self.bodies[tid]())
        except BaseException as e:      # noqa
            self.results[tid] = ('exc', type(e).__name__, str(e)[:100])
        finally:
            sys.settrace(None)
            self.done[tid] = True
            self.ctl.release()

    def execute(self):
        n = len(self.bodies)
        ths = [threading.Thread(target=self._run, args=(i,), daemon=True) for i in range(n)]
        for t in ths:
            t.start()
        cur = 0
        step = 0
        while not all(self.done):
            enabled = [i for i in range(n) if not self.done[i]]
            order = ([cur] if cur in enabled else []) + [i for i in enabled if i != cur]
            c = self.prefix[step] if step < len(self.prefix) else 0
            if c >= len(order):
                # release everybody to let threads finish, then fail loudly
                self.abort(ths)
                raise Divergence('replay diverged at step %d: choice %d of %d' % (step, c, len(order)))
            pick = order[c]
            self.points.append((len(order), cur in enabled))
            self.choices.append(c)
            self.trace_log.append((pick, self.where[pick]))
            cur = pick
            step += 1
            self.sem[pick].release()
            self.ctl.acquire()
        for t in ths:
            t.join()
        return self.results

    def abort(self, ths):
        for _ in range(100000):
            if all(self.done):
                break
            for i in range(len(self.bodies)):
                if not self.done[i]:
                    self.sem[i].release()
            self.ctl.acquire()


def run_schedule(mk_bodies, prefix, pkg_dir, critical):
    s = Sched(mk_bodies(), prefix, pkg_dir, critical)
    res = s.execute()
    return s, res


def children(s, prefix_len, bound):
    """Alternatives to branch on after executing schedule s (which replayed prefix of length prefix_len)."""
    out = []
    pre = 0
    for i, (norder, still) in enumerate(s.points):
        c = s.choices[i]
        if i >= prefix_len:
            cost = pre + (1 if still else 0)
            if cost <= bound:
                for alt in range(1, norder):
                    out.append(s.choices[:i] + [alt])
        if still and c != 0:
            pre += 1
    return out


def explore(mk_bodies, check, bound, pkg_dir, critical, roots=None, limit=None):
    """Depth-first enumeration of all schedules with <= bound preemptions below the given root prefixes.
    Returns (n_executions, violations[(choices, detail)], points_per_exec, capped)"""
    stack = [list(r) for r in (roots if roots is not None else [[]])]
    n = 0
    bad = []
    npoints = 0
    capped = False
    while stack:
        prefix = stack.pop()
        s, res = run_schedule(mk_bodies, prefix, pkg_dir, critical)
        n += 1
        npoints = max(npoints, len(s.points))
        d = check(res)
        if d:
            bad.append((list(s.choices), d, [w for w in s.trace_log if w[1] is not None][-1:]))
        stack.extend(children(s, len(prefix), bound))
        if limit and n >= limit:
            capped = bool(stack)
            break
    return n, bad, npoints, capped
