"""Environment model of the xmlsec1 1.2.x command line tool, as far as pysaml2 invokes it.

run(argv) -> (returncode, stdout, stderr, info)
Library-level helpers (sign_xml, verify_xml, encrypt_xml, decrypt_xml) are used by the forge and oracles.
See DESIGN.md section 4 for what is modelled and how the model is bound to reality.
"""
import base64
import hashlib
import re
import sys
from xml.dom import minidom, Node

from cryptography import x509
from cryptography.hazmat.primitives import hashes, serialization
from cryptography.hazmat.primitives.asymmetric import padding, rsa
from cryptography.hazmat.primitives.ciphers import Cipher, modes
from cryptography.hazmat.primitives.ciphers.algorithms import AES
try:
    from cryptography.hazmat.decrepit.ciphers.algorithms import TripleDES
except Exception:  # pragma: no cover
    from cryptography.hazmat.primitives.ciphers.algorithms import TripleDES

from vp.c14n import canonicalize, ns_in_scope

DS = 'http://www.w3.org/2000/09/xmldsig#'
XENC = 'http://www.w3.org/2001/04/xmlenc#'

DIG = {
    'http://www.w3.org/2000/09/xmldsig#sha1': hashlib.sha1,
    'http://www.w3.org/2001/04/xmldsig-more#sha224': hashlib.sha224,
    'http://www.w3.org/2001/04/xmlenc#sha256': hashlib.sha256,
    'http://www.w3.org/2001/04/xmldsig-more#sha384': hashlib.sha384,
    'http://www.w3.org/2001/04/xmlenc#sha512': hashlib.sha512,
}
SIGH = {
    'http://www.w3.org/2000/09/xmldsig#rsa-sha1': hashes.SHA1,
    'http://www.w3.org/2001/04/xmldsig-more#rsa-sha224': hashes.SHA224,
    'http://www.w3.org/2001/04/xmldsig-more#rsa-sha256': hashes.SHA256,
    'http://www.w3.org/2001/04/xmldsig-more#rsa-sha384': hashes.SHA384,
    'http://www.w3.org/2001/04/xmldsig-more#rsa-sha512': hashes.SHA512,
}
C14N_ALGS = {
    'http://www.w3.org/2001/10/xml-exc-c14n#': (True, False),
    'http://www.w3.org/2001/10/xml-exc-c14n#WithComments': (True, True),
    'http://www.w3.org/TR/2001/REC-xml-c14n-20010315': (False, False),
    'http://www.w3.org/TR/2001/REC-xml-c14n-20010315#WithComments': (False, True),
}
ENVELOPED = 'http://www.w3.org/2000/09/xmldsig#enveloped-signature'
BLOCK = {
    'http://www.w3.org/2001/04/xmlenc#tripledes-cbc': ('3des', 24, 8),
    'http://www.w3.org/2001/04/xmlenc#aes128-cbc': ('aes', 16, 16),
    'http://www.w3.org/2001/04/xmlenc#aes192-cbc': ('aes', 24, 16),
    'http://www.w3.org/2001/04/xmlenc#aes256-cbc': ('aes', 32, 16),
}
KT_15 = 'http://www.w3.org/2001/04/xmlenc#rsa-1_5'
KT_OAEP = 'http://www.w3.org/2001/04/xmlenc#rsa-oaep-mgf1p'
SESSION_KEYS = {'des-192': 24, 'aes-128': 16, 'aes-192': 24, 'aes-256': 32}


TRANSFORMS = ['base64', 'c14n', 'c14n-with-comments', 'c14n11', 'c14n11-with-comments', 'exc-c14n',
              'exc-c14n-with-comments', 'enveloped-signature', 'xpath', 'xpath2', 'xpointer', 'xslt', 'aes128-cbc',
              'aes192-cbc', 'aes256-cbc', 'tripledes-cbc', 'hmac-sha1', 'hmac-sha224', 'hmac-sha256', 'hmac-sha384',
              'hmac-sha512', 'rsa-sha1', 'rsa-sha224', 'rsa-sha256', 'rsa-sha384', 'rsa-sha512', 'rsa-1_5',
              'rsa-oaep-mgf1p', 'sha1', 'sha224', 'sha256', 'sha384', 'sha512']


class Fail(Exception):
    pass


# ------------------------------------------------------------------ DOM helpers

def elems(n):
    for c in n.childNodes:
        if c.nodeType == Node.ELEMENT_NODE:
            yield c


def dfs(n):
    yield n
    for c in elems(n):
        for x in dfs(c):
            yield x


def child(n, ns, name):
    if n is None:
        return None
    for c in elems(n):
        if c.namespaceURI == ns and c.localName == name:
            return c
    return None


def children(n, ns, name):
    return [c for c in elems(n) if c.namespaceURI == ns and c.localName == name]


def text(n):
    if n is None:
        return ''
    return ''.join(c.data for c in n.childNodes if c.nodeType in (Node.TEXT_NODE, Node.CDATA_SECTION_NODE))


def set_text(doc, n, t):
    while n.firstChild:
        n.removeChild(n.firstChild)
    n.appendChild(doc.createTextNode(t))


def find_node(start, ns, name):
    for e in dfs(start):
        if e.namespaceURI == ns and e.localName == name:
            return e
    return None


def path_of(e):
    parts = []
    while e is not None and e.nodeType == Node.ELEMENT_NODE:
        p = e.parentNode
        idx = 0
        if p is not None:
            for c in elems(p):
                if c is e:
                    break
                if c.localName == e.localName:
                    idx += 1
        parts.append('%s[%d]' % (e.localName, idx))
        e = p
    return '/' + '/'.join(reversed(parts))


def parse_doc(data, info=None):
    if isinstance(data, str):
        data = data.encode('utf-8')
    try:
        doc = minidom.parseString(data)
    except Exception as e:
        raise Fail('Error: failed to parse xml: %s' % e)
    if doc.doctype is not None and info is not None:
        info.setdefault('external', []).append(('doctype', doc.doctype.name or ''))
        # libxml2 as xmlsec1 uses it substitutes entities and loads what they point at: a document that declares
        # entities must never get this far
        ents = doc.doctype.entities
        for i in range(ents.length if ents is not None else 0):
            e = ents.item(i)
            info['external'].append(('entity-declaration', e.nodeName, e.systemId or ''))
        if '<!ENTITY' in (doc.doctype.internalSubset or '') and not (ents is not None and ents.length):
            info['external'].append(('entity-declaration', '%parameter', ''))
    return doc


def serialize(doc):
    # libxml2 xmlDocDump: declaration, newline, document element, newline
    return b'<?xml version="1.0" encoding="UTF-8"?>\n' + doc.documentElement.toxml().encode('utf-8') + b'\n'


def b64wrap(data):
    """xmlsec writes base64 in lines of 64 characters separated by a newline."""
    t = base64.b64encode(data).decode('ascii')
    return '\n'.join(t[i:i + 64] for i in range(0, len(t), 64))


# ---------------------------------------------------------------- ID handling

def register_ids(doc, idattrs):
    """xmlSecAppAddIDAttr: children first; element local name (and namespace, when the element has one)
    must match; duplicates are an error."""
    ids = {}

    def rec(node, attr, ns, name):
        for c in elems(node):
            rec(c, attr, ns, name)
        if node.localName != name:
            return
        if ns is not None and node.namespaceURI is not None and node.namespaceURI != ns:
            return
        a = None
        for i in range(node.attributes.length):
            at = node.attributes.item(i)
            if (at.localName or at.name) == attr and ':' not in at.name:
                a = at
                break
        if a is None:
            return
        v = a.value
        if v in ids:
            if ids[v] is not node:
                raise Fail('Error: duplicate ID attribute "%s"' % v)
        else:
            ids[v] = node

    for attr, ns, name in idattrs:
        rec(doc.documentElement, attr, ns, name)
    return ids


VALUE_OPTS = ('--privkey-pem', '--pubkey-cert-pem', '--pubkey-cert-der', '--pubkey-pem', '--node-id',
              '--node-xpath', '--node-name', '--output', '--session-key', '--xml-data',
              '--enabled-reference-uris', '--enabled-key-data')
FLAG_OPTS = ('--insecure',)


def _read(path):
    with open(path, 'rb') as f:
        return f.read()


def parse_args(argv):
    o = {'idattrs': [], 'pos': []}
    cmd = argv[0]
    i = 1
    while i < len(argv):
        a = argv[i]
        if a.startswith('--id-attr'):
            attr = a.split(':', 1)[1] if ':' in a else 'id'
            if i + 1 >= len(argv):
                raise Fail('Error: option "%s" requires a value' % a)
            v = argv[i + 1]
            i += 2
            if ':' in v:
                ns, name = v.rsplit(':', 1)
            else:
                ns, name = None, v
            o['idattrs'].append((attr, ns, name))
        elif a in VALUE_OPTS:
            if i + 1 >= len(argv):
                raise Fail('Error: option "%s" requires a value' % a)
            o[a] = argv[i + 1]
            i += 2
        elif a in FLAG_OPTS:
            o[a] = True
            i += 1
        elif a.startswith('--'):
            raise Fail('Error: option "%s" is unknown.' % a)
        else:
            o['pos'].append(a)
            i += 1
    return cmd, o


def xpath_select(doc, xp):
    """Only the /*[local-name()="X"]/... form pysaml2 uses."""
    names = re.findall(r"local-name\(\)\s*=\s*['\"]([^'\"]+)['\"]", xp)
    if not names:
        raise Fail('Error: unsupported xpath "%s"' % xp)
    cur = [doc]
    for nm in names:
        nxt = []
        for c in cur:
            nxt.extend(e for e in elems(c) if e.localName == nm)
        cur = nxt
    if not cur:
        raise Fail('Error: xpath "%s" matched nothing' % xp)
    return cur[0]


def start_node(doc, o, ids):
    cur = doc.documentElement
    if '--node-id' in o:
        cur = ids.get(o['--node-id'])
        if cur is None:
            raise Fail('Error: failed to find node with id="%s"' % o['--node-id'])
    elif '--node-xpath' in o:
        cur = xpath_select(doc, o['--node-xpath'])
    return cur


# --------------------------------------------------------------------- keys

def load_pub_file(o):
    try:
        if '--pubkey-cert-pem' in o:
            return x509.load_pem_x509_certificate(_read(o['--pubkey-cert-pem'])).public_key()
        if '--pubkey-cert-der' in o:
            return x509.load_der_x509_certificate(_read(o['--pubkey-cert-der'])).public_key()
        if '--pubkey-pem' in o:
            return serialization.load_pem_public_key(_read(o['--pubkey-pem']))
    except Fail:
        raise
    except Exception as e:
        raise Fail('Error: failed to load public key: %s' % e)
    return None


def load_priv_file(path):
    try:
        return serialization.load_pem_private_key(_read(path), None)
    except Exception as e:
        raise Fail('Error: failed to load private key from "%s": %s' % (path, e))


def _b64int(s):
    return int.from_bytes(base64.b64decode(s), 'big')


def key_from_keyinfo(ki, enabled, info):
    """xmlSecKeyInfoNodeRead for verification.  Returns a public key or None."""
    if ki is None:
        return None

    def on(kind):
        return enabled is None or kind in enabled
    for c in elems(ki):
        if c.namespaceURI != DS:
            continue
        ln = c.localName
        if ln == 'KeyValue' and on('key-value'):
            rk = child(c, DS, 'RSAKeyValue')
            if rk is not None and on('rsa'):
                try:
                    n = _b64int(text(child(rk, DS, 'Modulus')))
                    e = _b64int(text(child(rk, DS, 'Exponent')))
                    info['key_source'] = 'KeyValue'
                    return rsa.RSAPublicNumbers(e, n).public_key()
                except Exception:
                    raise Fail('func=xmlSecKeyDataRsaXmlRead:error=invalid RSAKeyValue')
        elif ln == 'X509Data' and on('x509'):
            # certificate is read, then verified against the trusted store; pysaml2 never passes
            # --trusted-*, so verification fails and (no STOP_ON_INVALID_CERT flag) no key results.
            info.setdefault('notes', []).append('x509data-untrusted-ignored')
        elif ln == 'KeyName' and on('key-name'):
            info.setdefault('notes', []).append('keyname-not-found')
        elif ln == 'RetrievalMethod' and on('retrieval-method'):
            uri = c.getAttribute('URI')
            if uri and not uri.startswith('#'):
                info.setdefault('external', []).append(('RetrievalMethod', uri))
                raise Fail('func=xmlSecKeyDataRetrievalMethodXmlRead:error=cannot fetch %s' % uri)
    return None


# --------------------------------------------------------------- signatures

def resolve_ref(doc, ref, ids, allowed, info):
    uri = ref.getAttribute('URI') if ref.hasAttribute('URI') else None
    if uri is None or uri == '':
        if 'empty' not in allowed:
            raise Fail('func=xmlSecTransformCtxSetUri:error=uri type is not allowed: empty')
        return doc.documentElement, True
    if uri.startswith('#'):
        if 'same-doc' not in allowed:
            raise Fail('func=xmlSecTransformCtxSetUri:error=uri type is not allowed: same-doc')
        frag = uri[1:]
        m = re.match(r"xpointer\(id\(['\"]([^'\"]*)['\"]\)\)$", frag)
        if m:
            frag = m.group(1)
        elif frag.startswith('xpointer('):
            if frag == 'xpointer(/)':
                return doc.documentElement, True
            raise Fail('func=xmlSecXPathDataExecute:error=unsupported xpointer %s' % frag)
        t = ids.get(frag)
        if t is None:
            raise Fail('func=xmlSecXPathDataExecute:error=failed to find id %s' % uri)
        return t, False
    kind = 'remote' if re.match(r'^[a-zA-Z][a-zA-Z0-9+.-]*:', uri) and not uri.startswith('file:') else 'local'
    if kind not in allowed:
        raise Fail('func=xmlSecTransformCtxSetUri:error=uri type is not allowed: %s' % kind)
    info.setdefault('external', []).append(('Reference', uri))
    raise Fail('func=xmlSecTransformInputURIOpen:error=cannot open %s' % uri)


def digest_ref(doc, ref, ids, allowed, sig, info):
    target, whole = resolve_ref(doc, ref, ids, allowed, info)
    info.setdefault('targets', []).append(path_of(target))
    tr = child(ref, DS, 'Transforms')
    exclude = None
    c14n = None
    prefixes = ()
    if tr is not None:
        for t in elems(tr):
            if not (t.namespaceURI == DS and t.localName == 'Transform'):
                raise Fail('unexpected node in Transforms')
            a = t.getAttribute('Algorithm')
            if a == ENVELOPED:
                exclude = sig
            elif a in C14N_ALGS:
                c14n = C14N_ALGS[a]
                inc = None
                for e in elems(t):
                    if e.localName == 'InclusiveNamespaces':
                        inc = e
                if inc is not None:
                    prefixes = tuple(inc.getAttribute('PrefixList').split())
            else:
                raise Fail('func=xmlSecTransformNodeRead:error=unsupported transform %s' % a)
    dm = child(ref, DS, 'DigestMethod')
    alg = dm.getAttribute('Algorithm') if dm is not None else None
    if alg not in DIG:
        raise Fail('func=xmlSecTransformNodeRead:error=unsupported digest %s' % alg)
    # target inside the excluded Signature -> empty node set
    n = target
    while n is not None and exclude is not None:
        if n is exclude:
            return DIG[alg](b'').digest()
        n = n.parentNode
    if c14n is None:
        c14n = (False, False)   # default: inclusive c14n 1.0 without comments
    data = canonicalize(target, exclude=exclude, exclusive=c14n[0], with_comments=c14n[1],
                        inclusive_prefixes=prefixes)
    return DIG[alg](data).digest()


def c14n_signed_info(si):
    cm = child(si, DS, 'CanonicalizationMethod')
    alg = cm.getAttribute('Algorithm') if cm is not None else None
    if alg not in C14N_ALGS:
        raise Fail('func=xmlSecTransformNodeRead:error=unsupported c14n %s' % alg)
    prefixes = ()
    for e in elems(cm):
        if e.localName == 'InclusiveNamespaces':
            prefixes = tuple(e.getAttribute('PrefixList').split())
    ex, wc = C14N_ALGS[alg]
    return canonicalize(si, exclusive=ex, with_comments=wc, inclusive_prefixes=prefixes)


ALL_URI_KINDS = ('empty', 'same-doc', 'local', 'remote')


def _allowed(o):
    v = o.get('--enabled-reference-uris')
    if v is None:
        return ALL_URI_KINDS
    kinds = [k.strip() for k in v.split(',') if k.strip()]
    if 'all' in kinds:
        return ALL_URI_KINDS
    return tuple(kinds)


def _enabled_key_data(o):
    v = o.get('--enabled-key-data')
    if v is None:
        return None
    return set(k.strip() for k in v.split(',') if k.strip())


def sign_dom(doc, sig, key, ids, allowed=ALL_URI_KINDS, info=None):
    info = info if info is not None else {}
    si = child(sig, DS, 'SignedInfo')
    if si is None:
        raise Fail('func=xmlSecDSigCtxProcessSignatureNode:error=SignedInfo missing')
    for ref in children(si, DS, 'Reference'):
        d = digest_ref(doc, ref, ids, allowed, sig, info)
        dv = child(ref, DS, 'DigestValue')
        if dv is None:
            raise Fail('DigestValue missing in template')
        set_text(doc, dv, b64wrap(d))
    smn = child(si, DS, 'SignatureMethod')
    sm = smn.getAttribute('Algorithm') if smn is not None else None
    if sm not in SIGH:
        raise Fail('func=xmlSecTransformNodeRead:error=unsupported signature method %s' % sm)
    sv = key.sign(c14n_signed_info(si), padding.PKCS1v15(), SIGH[sm]())
    svn = child(sig, DS, 'SignatureValue')
    if svn is None:
        raise Fail('SignatureValue missing in template')
    set_text(doc, svn, b64wrap(sv))


def verify_dom(doc, sig, default_key, ids, allowed=ALL_URI_KINDS, enabled=None, info=None):
    """Returns True/False (FAIL); raises Fail for processing errors."""
    info = info if info is not None else {}
    si = child(sig, DS, 'SignedInfo')
    if si is None:
        raise Fail('func=xmlSecDSigCtxProcessSignatureNode:error=SignedInfo missing')
    smn = child(si, DS, 'SignatureMethod')
    sm = smn.getAttribute('Algorithm') if smn is not None else None
    if sm not in SIGH:
        # the tool's diagnostics echo the algorithm URI taken from the document at the end of a line, before the verdict
        raise Fail('func=xmlSecTransformNodeRead:file=transforms.c:line=1324:obj=unknown:subj=xmlSecTransformIdListFindByHref:'
                   'error=1:xmlsec library function failed:href=%s\n'
                   'func=xmlSecTransformCtxNodeRead:file=transforms.c:line=1483:obj=unknown:subj=xmlSecTransformNodeRead:'
                   'error=1:xmlsec library function failed:name=SignatureMethod\n'
                   'func=xmlSecDSigCtxVerify:file=xmldsig.c:line=401:obj=unknown:subj=xmlSecDSigCtxProcessSignatureNode:error=1:'
                   'xmlsec library function failed: \nError: signature failed\nERROR\n'
                   'SignedInfo References (ok/all): 0/0\nManifests References (ok/all): 0/0' % sm)
    c14n_signed_info(si)  # algorithm check happens while reading SignedInfo
    refs = children(si, DS, 'Reference')
    if not refs:
        raise Fail('func=xmlSecDSigCtxProcessSignedInfoNode:error=no references')
    okrefs = 0
    for ref in refs:
        d = digest_ref(doc, ref, ids, allowed, sig, info)
        try:
            dv = base64.b64decode(text(child(ref, DS, 'DigestValue')))
        except Exception:
            dv = None
        if d == dv:
            okrefs += 1
        else:
            info['refs'] = (okrefs, len(refs))
            return False
    info['refs'] = (okrefs, len(refs))
    key = key_from_keyinfo(child(sig, DS, 'KeyInfo'), enabled, info)
    if key is None:
        key = default_key
        info['key_source'] = 'argument'
    if key is None:
        raise Fail('func=xmlSecKeysMngrGetKey:error=key is not found')
    try:
        svb = base64.b64decode(text(child(sig, DS, 'SignatureValue')))
        key.verify(svb, c14n_signed_info(si), padding.PKCS1v15(), SIGH[sm]())
    except Exception:
        return False
    return True


# --------------------------------------------------------------- encryption

def _cipher(kind, key, iv):
    if kind == '3des':
        return Cipher(TripleDES(key), modes.CBC(iv))
    return Cipher(AES(key), modes.CBC(iv))


def fill_template(tmpl_doc, plaintext, pubkey, session_key_type, rnd):
    ed = tmpl_doc.documentElement
    if not (ed.namespaceURI == XENC and ed.localName == 'EncryptedData'):
        ed = find_node(ed, XENC, 'EncryptedData')
        if ed is None:
            raise Fail('Error: failed to find default node with name="EncryptedData"')
    em = child(ed, XENC, 'EncryptionMethod')
    alg = em.getAttribute('Algorithm') if em is not None else None
    if alg not in BLOCK:
        raise Fail('func=xmlSecTransformNodeRead:error=unsupported encryption method %s' % alg)
    kind, klen, bs = BLOCK[alg]
    if session_key_type not in SESSION_KEYS:
        raise Fail('Error: unknown session key type "%s"' % session_key_type)
    if SESSION_KEYS[session_key_type] != klen:
        raise Fail('func=xmlSecKeyMatch:error=session key does not match encryption method')
    skey = rnd(klen)
    iv = rnd(bs)
    padlen = bs - len(plaintext) % bs
    pt = plaintext + rnd(padlen - 1) + bytes([padlen])
    enc = _cipher(kind, skey, iv).encryptor()
    ct = iv + enc.update(pt) + enc.finalize()
    ki = child(ed, DS, 'KeyInfo')
    ek = child(ki, XENC, 'EncryptedKey') if ki is not None else None
    if ek is None:
        raise Fail('template has no EncryptedKey')
    kem = child(ek, XENC, 'EncryptionMethod')
    kalg = kem.getAttribute('Algorithm') if kem is not None else None
    if kalg == KT_15:
        wrapped = pubkey.encrypt(skey, padding.PKCS1v15())
    elif kalg == KT_OAEP:
        wrapped = pubkey.encrypt(skey, padding.OAEP(padding.MGF1(hashes.SHA1()), hashes.SHA1(), None))
    else:
        raise Fail('func=xmlSecTransformNodeRead:error=unsupported key transport %s' % kalg)
    ekcv = child(child(ek, XENC, 'CipherData'), XENC, 'CipherValue')
    dcv = child(child(ed, XENC, 'CipherData'), XENC, 'CipherValue')
    if ekcv is None or dcv is None:
        raise Fail('template has no CipherValue')
    set_text(tmpl_doc, ekcv, b64wrap(wrapped))
    set_text(tmpl_doc, dcv, b64wrap(ct))
    return ed


def unwrap_and_decrypt(ed, privkey, ids=None, info=None):
    em = child(ed, XENC, 'EncryptionMethod')
    alg = em.getAttribute('Algorithm') if em is not None else None
    if alg not in BLOCK:
        raise Fail('func=xmlSecTransformNodeRead:error=unsupported encryption method %s' % alg)
    kind, klen, bs = BLOCK[alg]
    ki = child(ed, DS, 'KeyInfo')
    ek = child(ki, XENC, 'EncryptedKey') if ki is not None else None
    if ek is None and ki is not None:
        rm = child(ki, DS, 'RetrievalMethod')
        if rm is not None:
            uri = rm.getAttribute('URI')
            if uri.startswith('#'):
                t = (ids or {}).get(uri[1:])
                if t is not None and t.namespaceURI == XENC and t.localName == 'EncryptedKey':
                    ek = t
            elif uri:
                if info is not None:
                    info.setdefault('external', []).append(('RetrievalMethod', uri))
                raise Fail('func=xmlSecKeyDataRetrievalMethodXmlRead:error=cannot fetch %s' % uri)
    if ek is None:
        # xmlsec would look for a matching symmetric key in the keys manager: none is loaded
        raise Fail('func=xmlSecKeysMngrGetKey:error=key is not found')
    kem = child(ek, XENC, 'EncryptionMethod')
    kalg = kem.getAttribute('Algorithm') if kem is not None else None
    try:
        wrapped = base64.b64decode(text(child(child(ek, XENC, 'CipherData'), XENC, 'CipherValue')))
        if kalg == KT_15:
            skey = privkey.decrypt(wrapped, padding.PKCS1v15())
        elif kalg == KT_OAEP:
            skey = privkey.decrypt(wrapped, padding.OAEP(padding.MGF1(hashes.SHA1()), hashes.SHA1(), None))
        else:
            raise Fail('func=xmlSecTransformNodeRead:error=unsupported key transport %s' % kalg)
    except Fail:
        raise
    except Exception:
        raise Fail('func=xmlSecOpenSSLRsaPkcs1Process:error=RSA decrypt failed')
    if len(skey) != klen:
        raise Fail('func=xmlSecKeyMatch:error=session key size mismatch')
    try:
        ct = base64.b64decode(text(child(child(ed, XENC, 'CipherData'), XENC, 'CipherValue')))
        if len(ct) < 2 * bs or len(ct) % bs:
            raise ValueError('bad ciphertext length')
        dec = _cipher(kind, skey, ct[:bs]).decryptor()
        pt = dec.update(ct[bs:]) + dec.finalize()
        padlen = pt[-1]
        if padlen < 1 or padlen > bs:
            raise ValueError('bad padding')
        return pt[:-padlen]
    except Exception as e:
        raise Fail('func=xmlSecOpenSSLEvpBlockCipherExecute:error=%s' % e)


def parse_in_context(doc, parent, data):
    """xmlParseInNodeContext: the fragment sees the namespace declarations in scope at `parent`."""
    scope = ns_in_scope(parent) if parent is not None and parent.nodeType == Node.ELEMENT_NODE else {}
    decl = ''.join(' xmlns%s="%s"' % ((':' + p) if p else '', u.replace('&', '&amp;').replace('"', '&quot;'))
                   for p, u in sorted(scope.items()) if p != 'xml' and not (p == '' and u == ''))
    try:
        txt = data.decode('utf-8')
    except Exception:
        raise Fail('func=xmlSecReplaceNodeBuffer:error=decrypted data is not utf-8')
    txt = re.sub(r'^\s*<\?xml[^>]*\?>', '', txt)
    wrapped = '<vp-ctx%s>%s</vp-ctx>' % (decl, txt)
    try:
        frag = minidom.parseString(wrapped.encode('utf-8'))
    except Exception as e:
        raise Fail('func=xmlSecReplaceNodeBuffer:error=failed to parse decrypted data: %s' % e)
    return [doc.importNode(c, True) for c in list(frag.documentElement.childNodes)]


# ------------------------------------------------------------------ commands

def do_sign(o, info):
    doc = parse_doc(_read(o['pos'][0]), info)
    ids = register_ids(doc, o['idattrs'])
    cur = start_node(doc, o, ids)
    sig = find_node(cur, DS, 'Signature')
    if sig is None:
        raise Fail('Error: failed to find default node with name="Signature"')
    if '--privkey-pem' not in o:
        raise Fail('Error: no private key')
    key = load_priv_file(o['--privkey-pem'])
    info['sig'] = path_of(sig)
    info['start'] = path_of(cur)
    sign_dom(doc, sig, key, ids, _allowed(o), info)
    if '--output' in o:
        with open(o['--output'], 'wb') as f:
            f.write(serialize(doc))
        return 0, '', ''
    return 0, serialize(doc).decode('utf-8'), ''


def do_verify(o, info):
    doc = parse_doc(_read(o['pos'][0]), info)
    ids = register_ids(doc, o['idattrs'])
    cur = start_node(doc, o, ids)
    sig = find_node(cur, DS, 'Signature')
    if sig is None:
        raise Fail('Error: failed to find default node with name="Signature"')
    info['sig'] = path_of(sig)
    info['start'] = path_of(cur)
    key = load_pub_file(o)
    ok = verify_dom(doc, sig, key, ids, _allowed(o), _enabled_key_data(o), info)
    info['ok'] = ok
    r = info.get('refs', (0, 0))
    new_style = tuple(int(x) for x in VERSION[0].split('.')[:2]) >= (1, 3)
    if ok:
        return 0, '', '%s\nSignedInfo References (ok/all): %d/%d\nManifests References (ok/all): 0/0\n' % (
            ('Verification status: OK' if new_style else 'OK',) + tuple(r))
    return 1, '', ('%s\nSignedInfo References (ok/all): %d/%d\nManifests References (ok/all): 0/0\n'
                   'Error: failed to verify file "%s"\n' % ('Verification status: FAILED' if new_style else 'FAIL', r[0], r[1], o['pos'][0]))


def do_encrypt(o, info):
    from vp import env
    tmpl = parse_doc(_read(o['pos'][0]), info)
    if '--xml-data' not in o:
        raise Fail('Error: only --xml-data encryption is modelled')
    doc = parse_doc(_read(o['--xml-data']), info)
    ids = register_ids(doc, o['idattrs'])
    if '--node-id' in o:
        target = ids.get(o['--node-id'])
        if target is None:
            raise Fail('Error: failed to find node with id="%s"' % o['--node-id'])
    elif '--node-xpath' in o:
        target = xpath_select(doc, o['--node-xpath'])
    else:
        target = doc.documentElement
    if '--pubkey-cert-pem' not in o and '--pubkey-pem' not in o and '--pubkey-cert-der' not in o:
        raise Fail('Error: no key to encrypt with')
    pub = load_pub_file(o)
    if '--session-key' not in o:
        raise Fail('func=xmlSecKeysMngrGetKey:error=key is not found')
    edt = find_node(tmpl.documentElement, XENC, 'EncryptedData')
    etype = edt.getAttribute('Type') if edt is not None else ''
    if etype.endswith('#Content'):
        pt = ''.join(c.toxml() for c in target.childNodes).encode('utf-8')
    else:
        pt = target.toxml().encode('utf-8')       # xmlNodeDump: own declarations only
    ed = fill_template(tmpl, pt, pub, o['--session-key'], env.det_bytes)
    new = doc.importNode(ed, True)
    info['target'] = path_of(target)
    if etype.endswith('#Content'):
        while target.firstChild:
            target.removeChild(target.firstChild)
        target.appendChild(new)
    else:
        target.parentNode.replaceChild(new, target)
    if '--output' in o:
        with open(o['--output'], 'wb') as f:
            f.write(serialize(doc))
        return 0, '', ''
    return 0, serialize(doc).decode('utf-8'), ''


def do_decrypt(o, info):
    doc = parse_doc(_read(o['pos'][0]), info)
    ids = register_ids(doc, o['idattrs'])
    cur = start_node(doc, o, ids)
    ed = find_node(cur, XENC, 'EncryptedData')
    if ed is None:
        raise Fail('Error: failed to find default node with name="EncryptedData"')
    info['target'] = path_of(ed)
    cr = find_node(ed, XENC, 'CipherReference')
    if cr is not None:
        info.setdefault('external', []).append(('CipherReference', cr.getAttribute('URI')))
        raise Fail('func=xmlSecTransformInputURIOpen:error=cannot open %s' % cr.getAttribute('URI'))
    if '--privkey-pem' not in o:
        raise Fail('func=xmlSecKeysMngrGetKey:error=key is not found')
    key = load_priv_file(o['--privkey-pem'])
    pt = unwrap_and_decrypt(ed, key, ids, info)
    etype = ed.getAttribute('Type')
    if etype.endswith('#Element') or etype.endswith('#Content'):
        parent = ed.parentNode
        nodes = parse_in_context(doc, parent, pt)
        for n in nodes:
            parent.insertBefore(n, ed)
        parent.removeChild(ed)
        data = serialize(doc)
    else:
        data = pt
    if '--output' in o:
        with open(o['--output'], 'wb') as f:
            f.write(data)
        return 0, '', ''
    return 0, data.decode('utf-8', 'replace'), ''


CMDS = {'--sign': do_sign, '--verify': do_verify, '--encrypt': do_encrypt, '--decrypt': do_decrypt,
        'sign': do_sign, 'verify': do_verify, 'encrypt': do_encrypt, 'decrypt': do_decrypt}


VERSION = ['1.2.28']       # what the modelled tool reports; from 1.3 on the verdict lines read 'Verification status: ...'


def run(argv):
    info = {}
    try:
        if not argv:
            raise Fail('Error: no command')
        if argv[0] in ('--version', 'version'):
            return 0, 'xmlsec1 %s (openssl)\n' % VERSION[0], '', info
        if argv[0] in ('--list-transforms', 'list-transforms'):
            return 0, 'Registered transforms klasses:\n' + ','.join('"%s"' % t for t in TRANSFORMS) + '\n', '', info
        if argv[0] not in CMDS:
            raise Fail('Error: unknown command "%s"' % argv[0])
        cmd, o = parse_args(argv)
        info['op'] = cmd.lstrip('-')
        if '--node-id' in o:
            info['node_id'] = o['--node-id']
        if not o['pos']:
            raise Fail('Error: no input file')
        rc, out, err = CMDS[cmd](o, info)
        return rc, out, err, info
    except Fail as e:
        info['error'] = str(e)
        return 1, '', str(e) + '\nError: operation failed\n', info
    except Exception as e:       # a defect of the model, never silently a verdict
        import traceback
        info['model_error'] = traceback.format_exc()
        return 1, '', 'MODEL-ERROR ' + traceback.format_exc(), info


# ------------------------------------------------------- library-level helpers

def _idattrs(spec):
    out = []
    for attr, qname in spec:
        if ':' in qname:
            ns, name = qname.rsplit(':', 1)
        else:
            ns, name = None, qname
        out.append((attr, ns, name))
    return out


SAML_IDATTRS = _idattrs([('ID', 'urn:oasis:names:tc:SAML:2.0:assertion:Assertion'),
                         ('ID', 'urn:oasis:names:tc:SAML:2.0:protocol:Response')])


def all_ids(doc, attr='ID'):
    """IDs on every element (for forging): no name restriction, duplicates keep the first."""
    ids = {}
    for e in dfs(doc.documentElement):
        if e.hasAttribute(attr):
            ids.setdefault(e.getAttribute(attr), e)
    return ids


def sign_xml(xml, node_id, priv, attr='ID'):
    """Fill the first Signature template under the element with ID `node_id`; returns str."""
    doc = parse_doc(xml)
    ids = all_ids(doc, attr)
    cur = ids.get(node_id)
    if cur is None:
        raise Fail('no element with %s=%s' % (attr, node_id))
    sig = find_node(cur, DS, 'Signature')
    if sig is None:
        raise Fail('no Signature template under %s' % node_id)
    sign_dom(doc, sig, priv, ids)
    return doc.documentElement.toxml()


def encrypt_node(doc, target, template_xml, pubkey, session_key_type='des-192', rnd=None):
    from vp import env
    tmpl = parse_doc(template_xml)
    pt = target.toxml().encode('utf-8')
    ed = fill_template(tmpl, pt, pubkey, session_key_type, rnd or env.det_bytes)
    new = doc.importNode(ed, True)
    target.parentNode.replaceChild(new, target)
    return new


def decrypt_first(xml, privkey):
    doc = parse_doc(xml)
    ed = find_node(doc.documentElement, XENC, 'EncryptedData')
    if ed is None:
        raise Fail('no EncryptedData')
    pt = unwrap_and_decrypt(ed, privkey)
    parent = ed.parentNode
    for n in parse_in_context(doc, parent, pt):
        parent.insertBefore(n, ed)
    parent.removeChild(ed)
    return doc.documentElement.toxml()


def main():
    rc, out, err, _info = run(sys.argv[1:])
    sys.stdout.write(out)
    sys.stderr.write(err)
    sys.exit(rc)


if __name__ == '__main__':
    main()
