"""Setup self-test: keys present, model self-consistency (sign/verify, encrypt/decrypt), fixture conformance,
seam equivalence between the in-process seam and the executable stand-in."""
import os
import subprocess
import sys
import tempfile

from vp import env


def main():
    env.install()
    from vp import xmlsec, world, forge, oracle
    for n in ('idpA', 'idpA2', 'idpAenc', 'idpB', 'spX', 'spXenc1', 'spXenc2', 'spY', 'mallory', 'mdsigner'):
        assert os.path.exists(world.key(n)) and os.path.exists(world.crt(n)), n
    # 1. artefacts produced by real xmlsec1
    t = '/repo/tests/'
    if os.path.exists(t + 'saml_signed.xml'):
        na = 'urn:oasis:names:tc:SAML:2.0:assertion:Assertion'
        rc, _o, err, _i = xmlsec.run(['--verify', '--pubkey-cert-pem', t + 'test.pem', '--id-attr:ID', na, t + 'saml_signed.xml'])
        assert rc == 0 and err.startswith('OK'), ('fixture saml_signed.xml must verify', err)
        rc, _o, err, _i = xmlsec.run(['--verify', '--pubkey-cert-pem', t + 'test.pem', '--id-attr:ID', na, t + 'saml_false_signed.xml'])
        assert rc != 0 and err.startswith('FAIL'), ('fixture saml_false_signed.xml must fail', err)
    # 2. self-consistency for all five algorithms, plain and encrypted, and the independent strict verifier
    for alg in forge.SIG_ALGS:
        x = forge.build(env.BASE, sign_resp='idpA', sign_ass='idpA', alg=alg)
        doc = xmlsec.parse_doc(x)
        ok, why = oracle.strict_signature(doc, doc.documentElement, ['idpA'])
        assert ok, (alg, why)
        a = oracle.direct_assertions(doc.documentElement)[0]
        ok, why = oracle.strict_signature(doc, a, ['idpA'])
        assert ok, (alg, why)
        ok, why = oracle.strict_signature(doc, a, ['idpB'])
        assert not ok
    for da in forge.ENC_ALGS:
        for ka in forge.KT:
            x = forge.build(env.BASE, sign_ass='idpA', encrypt='spXenc1', data_alg=da, key_alg=ka)
            assert 'alice' not in x
            y, full = oracle.decrypt_all(x, ['spXenc1'])
            assert full and 'alice' in y, (da, ka)
            y, full = oracle.decrypt_all(x, ['spXenc2'])
            assert not full
    # 3. seam equivalence: same verdicts through the executable stand-in
    d = tempfile.mkdtemp(prefix='vp-self-')
    try:
        good = forge.build(env.BASE, sign_resp='idpA')
        bad = good.replace('alice', 'alicf')
        for name, doc, want in (('good', good, 0), ('bad', bad, 1)):
            p = os.path.join(d, name + '.xml')
            open(p, 'w').write(doc)
            argv = ['--verify', '--enabled-reference-uris', 'empty,same-doc', '--pubkey-cert-pem', world.crt('idpA'),
                    '--id-attr:ID', 'urn:oasis:names:tc:SAML:2.0:protocol:Response', '--node-id', 'R1', p]
            rc1, _o, err1, _i = xmlsec.run(argv)
            pr = subprocess.run([world.XMLSEC] + argv, capture_output=True)
            assert rc1 == pr.returncode == want, (name, rc1, pr.returncode, pr.stderr)
            assert err1.splitlines()[0] == pr.stderr.decode().splitlines()[0]
    finally:
        import shutil
        shutil.rmtree(d, True)
    print('selftest ok')


if __name__ == '__main__':
    sys.exit(main())
