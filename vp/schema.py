"""Schema element class discovery, typed value generation, base instances and structural comparison (C12, C13)."""
import importlib
import inspect
import pkgutil

_CLASSES = []
_MODS = []


def discover():
    if _CLASSES:
        return _CLASSES
    import saml2_tophat
    from saml2_tophat import SamlBase
    for m in sorted(pkgutil.walk_packages(saml2_tophat.__path__, 'saml2_tophat.'), key=lambda m: m.name):
        if '.s2repoze' in m.name or 'mongo' in m.name or 'mdbcache' in m.name or m.name.endswith('mcache'):
            continue
        try:
            mod = importlib.import_module(m.name)
        except Exception:
            continue
        if hasattr(mod, 'ELEMENT_BY_TAG') or hasattr(mod, 'ELEMENT_FROM_STRING'):
            _MODS.append(mod)
    seen = set()
    for mod in _MODS:
        for n, c in sorted(inspect.getmembers(mod, inspect.isclass)):
            if issubclass(c, SamlBase) and c.__module__ == mod.__name__ and c not in seen and c.c_tag:
                seen.add(c)
                _CLASSES.append(c)
    return _CLASSES


def modules():
    discover()
    return _MODS


def cname(c):
    return '%s.%s' % (c.__module__.replace('saml2_tophat.', ''), c.__name__)


GOOD = {
    'string': 'v', 'anyURI': 'urn:vp:x', 'dateTime': '2031-03-04T05:06:07Z', 'datetime': '2031-03-04T05:06:07Z',
    'boolean': 'true', 'integer': '1', 'nonNegativeInteger': '1', 'positiveInteger': '1', 'PositiveInteger': '1',
    'unsignedShort': '1', 'unsignedByte': '1', 'duration': 'PT1H', 'ID': 'id1', 'NCName': 'nc1', 'IDREF': 'id1',
    'base64Binary': 'AAAA', 'QName': 'nc1', 'anyType': 'v', 'NMTOKEN': 'tok', 'NMTOKENS': 'tok1 tok2', 'language': 'en',
    'token': 'v', 'normalizedString': 'v', 'hexBinary': '00', 'int': '1', 'long': '1', 'short': '1', 'decimal': '1',
    # the rest of the XML Schema number / date family: a conforming value for every built-in type, so that a library
    # that starts checking one of them finds the generated base instances valid
    'unsignedLong': '1', 'unsignedInt': '1', 'byte': '1', 'negativeInteger': '-1', 'nonPositiveInteger': '0', 'float': '1.5', 'double': '1.5',
    'date': '2031-03-04', 'time': '05:06:07', 'gYear': '2031', 'gYearMonth': '2031-03', 'gMonth': '--03', 'gDay': '---04', 'gMonthDay': '--03-04',
    'Name': 'nc1', 'ENTITY': 'nc1', 'IDREFS': 'id1', 'anySimpleType': 'v',
}
BAD = {
    # gross violations and near-misses of the lexical space (what the language's own converters let through:
    # single-digit fields, an empty fraction, digit separators, digits of other scripts, other letter case)
    'dateTime': ['yesterday', '2031-13-45T99:99:99Z', '2031-03-04', '2031-3-4T5:6:7Z', '2031-03-04T05:06:07.Z', '2031-03-04 05:06:07Z',
                 '\u0662\u0660\u0663\u0661-03-04T05:06:07Z'],
    'boolean': ['maybe', 'yes', '2', 'TRUE', 'True', 'fAlse'],
    'integer': ['one', '1.5', '1_000', '\u0661\u0662', '0x10', '1e3'],
    'nonNegativeInteger': ['-1', 'one', '1_0', '\u0661'],
    'positiveInteger': ['0', '-1', 'one', '1_0', '\u0661'],
    'PositiveInteger': ['0', '-1', 'one', '1_0', '\u0661'],
    'unsignedShort': ['-1', '65536', 'one', '6_5', '\u0661'],
    'unsignedByte': ['-1', '256', 'three', '2_5'],
    'unsignedInt': ['-1', '4294967296', 'big', '1_0'],
    'unsignedLong': ['-1', '18446744073709551616', 'soon', '1_0'],
    'duration': ['1 hour', 'P', 'PT', 'PT5', 'PT1,5S', 'P1S', 'P-1D', 'PT1H1D'],
}


# other valid lexical forms of the checked simple types (XSD part 2): each must be accepted as well
GOOD_ALT = {
    'dateTime': ['2031-03-04T05:06:07.1Z', '2031-03-04T05:06:07.123456Z', '2031-03-04T05:06:07.1444737Z', '2031-03-04T05:06:07.123456789012Z',
                 '2031-03-04T05:06:07'],
    'boolean': ['false', '1', '0'],
    'integer': ['0', '-7', '12345678901234567890'],
    'nonNegativeInteger': ['0', '12345678901234567890'],
    'positiveInteger': ['12345678901234567890'],
    'PositiveInteger': ['12345678901234567890'],
    'unsignedShort': ['0', '65535'],
    'unsignedByte': ['0', '255'], 'unsignedInt': ['0', '4294967295'], 'unsignedLong': ['0', '18446744073709551615'],
    'duration': ['P1Y2M3DT4H5M6S', 'PT0S', 'P1D', '-P1D', 'PT1.5S'],
}


def local_type(typ):
    if not isinstance(typ, str):
        return None
    t = typ.split(':')[-1]
    return t or 'string'


def good_value(typ):
    """A valid lexical value for an attribute type (string type name or schema class)."""
    if isinstance(typ, type):
        spec = getattr(typ, 'c_value_type', None)
        return good_for_spec(spec)
    t = local_type(typ)
    return GOOD.get(t, 'v')


def good_for_spec(spec):
    if not spec:
        return 'v'
    if 'enumeration' in spec:
        return spec['enumeration'][0]
    if spec.get('base') == 'list':
        return GOOD.get(local_type(spec.get('member')), 'v')
    return GOOD.get(local_type(spec.get('base')), 'v')


def base_instance(cls, depth=2, stack=()):
    """Instance with every declared attribute set to a type-appropriate value and one instance of every declared
    child down to `depth`; below that only the children the class declares as required (c_cardinality min >= 1),
    so that the instance satisfies every declared occurrence bound.  Cycles are cut."""
    x = cls()
    for xmlattr, (name, typ, req) in cls.c_attributes.items():
        setattr(x, name, good_value(typ))
    for tag, (name, spec) in cls.c_children.items():
        k = spec[0] if isinstance(spec, list) else spec
        if k is None:
            continue
        card = cls.c_cardinality.get(name) or {}
        try:
            cmin = int(card.get('min') or 0)
        except (TypeError, ValueError):
            cmin = 0
        if depth <= 0 and cmin < 1:
            continue
        if k in stack and cmin < 1:
            continue
        if len(stack) > 12:
            continue
        n = max(1, cmin)
        if isinstance(spec, list):
            setattr(x, name, [base_instance(k, depth - 1, stack + (cls,)) for _ in range(n)])
        else:
            setattr(x, name, base_instance(k, depth - 1, stack + (cls,)))
    if cls.c_value_type:
        x.text = good_for_spec(cls.c_value_type)
    elif not cls.c_children:
        x.text = 't'
    return x


_DEF = {}


def _defaults(cls):
    if cls not in _DEF:
        try:
            o = cls()
            _DEF[cls] = {name: getattr(o, name, None) for _xa, (name, _t, _r) in cls.c_attributes.items()}
        except Exception:
            _DEF[cls] = {}
    return _DEF[cls]


def struct(x):
    from saml2_tophat import ExtensionElement
    if isinstance(x, ExtensionElement):
        return ('EXT', x.namespace, x.tag, tuple(sorted(x.attributes.items())), x.text,
                tuple(struct(c) for c in x.children))
    d = []
    dflt = _defaults(type(x))
    for xmlattr, (name, typ, req) in sorted(x.c_attributes.items(), key=lambda kv: kv[0]):
        v = getattr(x, name, None)
        if v is None:
            v = dflt.get(name)       # an absent attribute reads as the schema default the class declares
        d.append((name, v))
    ch = []
    names = []
    for tag, (name, spec) in x.c_children.items():
        if name not in names:
            names.append(name)
    for name in sorted(names):
        v = getattr(x, name, None)
        if v is None or v == []:
            continue
        if isinstance(v, list):
            ch.append((name, tuple(struct(c) for c in v)))
        else:
            ch.append((name, struct(v)))
    return (type(x).__module__, type(x).__name__, tuple(d), x.text, tuple(ch),
            tuple(struct(e) for e in x.extension_elements), tuple(sorted(x.extension_attributes.items())))
