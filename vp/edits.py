"""Edit operators over signed documents (C01 / C10 / C17): every operator instance is a JSON-able descriptor
that is applied to a freshly parsed copy of a document, so that a state is (start document, descriptor list)."""
from xml.dom import Node

from vp import xmlsec
from vp.xmlsec import DS, elems, dfs

SAML = 'urn:oasis:names:tc:SAML:2.0:assertion'
SAMLP = 'urn:oasis:names:tc:SAML:2.0:protocol'
FOREIGN = 'urn:vp:foreign'


def nodes(doc):
    return list(dfs(doc.documentElement))


def label(e):
    return e.localName


def direct_text(e):
    return ''.join(c.data for c in e.childNodes if c.nodeType == Node.TEXT_NODE)


def set_direct_text(doc, e, t):
    for c in list(e.childNodes):
        if c.nodeType == Node.TEXT_NODE:
            e.removeChild(c)
    e.appendChild(doc.createTextNode(t))


def insert(parent, node, pos):
    if pos == 'first':
        parent.insertBefore(node, parent.firstChild)
    elif pos == 'last':
        parent.appendChild(node)
    else:
        raise ValueError(pos)


def is_ancestor(a, b):
    """a is b or an ancestor of b"""
    n = b
    while n is not None:
        if n is a:
            return True
        n = n.parentNode
    return False


def make_wrapper(doc, kind):
    if kind == 'Extensions':
        w = doc.createElementNS(SAMLP, 'samlp:Extensions')
        w.setAttribute('xmlns:samlp', SAMLP)
        return w
    if kind == 'Advice':
        w = doc.createElementNS(SAML, 'saml:Advice')
        w.setAttribute('xmlns:saml', SAML)
        return w
    if kind == 'Object':
        w = doc.createElementNS(DS, 'ds:Object')
        w.setAttribute('xmlns:ds', DS)
        return w
    if kind == 'Foreign':
        w = doc.createElementNS(FOREIGN, 'f:Wrapper')
        w.setAttribute('xmlns:f', FOREIGN)
        return w
    if kind == 'Response':
        w = doc.createElementNS(SAMLP, 'samlp:Response')
        w.setAttribute('xmlns:samlp', SAMLP)
        return w
    raise ValueError(kind)


def apply(doc, op):
    """Apply one operator descriptor to a minidom document.  Returns False if not applicable."""
    ns = nodes(doc)
    k = op[0]
    if k == 'text':
        e = ns[op[1]]
        set_direct_text(doc, e, op[2])
    elif k == 'attr':
        e = ns[op[1]]
        e.setAttribute(op[2], op[3])
    elif k == 'delattr':
        e = ns[op[1]]
        if e.hasAttribute(op[2]):
            e.removeAttribute(op[2])
    elif k == 'del':
        e = ns[op[1]]
        e.parentNode.removeChild(e)
    elif k in ('move', 'copy'):
        x, y = ns[op[1]], ns[op[2]]
        if k == 'move':
            if is_ancestor(x, y):
                return False
            x.parentNode.removeChild(x)
            insert(y, x, op[3])
        else:
            c = x.cloneNode(True)
            if len(op) > 4 and op[4]:      # rename the copy's ID
                if c.hasAttribute('ID'):
                    c.setAttribute('ID', op[4])
            insert(y, c, op[3])
    elif k == 'movebefore':
        x, y = ns[op[1]], ns[op[2]]
        if is_ancestor(x, y):
            return False
        x.parentNode.removeChild(x)
        y.parentNode.insertBefore(x, y)
    elif k == 'wrap':
        x = ns[op[1]]
        w = make_wrapper(doc, op[2])
        x.parentNode.replaceChild(w, x)
        w.appendChild(x)
    elif k == 'dupsig':
        # a second Signature child in element e: copy of signature s, optionally gutted, first/last
        e, s = ns[op[1]], ns[op[2]]
        c = s.cloneNode(True)
        if op[4] == 'gutted':
            for sv in c.getElementsByTagNameNS(DS, 'SignatureValue'):
                xmlsec.set_text(doc, sv, 'AAAA')
        insert(e, c, op[3])
    elif k == 'setid':
        e = ns[op[1]]
        e.setAttribute('ID', op[2])
    else:
        raise ValueError(op)
    return True


def apply_all(xml, ops):
    try:
        doc = xmlsec.parse_doc(xml)
    except xmlsec.Fail:
        return None
    for op in ops:
        if not apply(doc, op):
            return None
    out = doc.documentElement.toxml()
    try:
        xmlsec.parse_doc(out)          # an edit must yield a well-formed document to count as a state
    except xmlsec.Fail:
        return None
    return out


# ------------------------------------------------------------ enumerations

def sites(doc):
    """Classify element indexes of a document."""
    ns = nodes(doc)
    s = {'all': list(range(len(ns))), 'sig': [], 'assertion': [], 'response': [], 'struct': [], 'in_sig': set()}
    for i, e in enumerate(ns):
        if e.namespaceURI == DS and e.localName == 'Signature':
            s['sig'].append(i)
        if e.namespaceURI == SAML and e.localName == 'Assertion':
            s['assertion'].append(i)
        if e.namespaceURI == SAMLP and e.localName == 'Response':
            s['response'].append(i)
        if e.namespaceURI == SAML and e.localName in ('Subject', 'Conditions', 'AttributeStatement'):
            s['struct'].append(i)
        n = e
        while n is not None and n.nodeType == Node.ELEMENT_NODE:
            if n.namespaceURI == DS and n.localName == 'Signature':
                s['in_sig'].add(i)
                break
            n = n.parentNode
    return ns, s


def depth1(xml, full=True):
    """All single edits of a document, as descriptor lists (each a list with one op)."""
    doc = xmlsec.parse_doc(xml)
    ns, s = sites(doc)
    out = []
    for i, e in enumerate(ns):
        t = direct_text(e)
        if t.strip():
            out.append([['text', i, t + 'x']])
        for j in range(e.attributes.length):
            a = e.attributes.item(j)
            if a.name.startswith('xmlns'):
                continue
            out.append([['attr', i, a.name, a.value + 'x']])
            if full:
                out.append([['delattr', i, a.name]])
        if i != 0:
            out.append([['del', i]])
    movers = s['sig'] + s['assertion'] + s['struct']
    for x in movers:
        for y in s['all']:
            if x == y:
                continue
            for pos in ('first', 'last'):
                out.append([['move', x, y, pos]])
                out.append([['copy', x, y, pos, None]])
                if x in s['assertion']:
                    out.append([['copy', x, y, pos, 'evil-id']])
        for y in s['all']:
            if y != 0 and x != y and full:
                out.append([['movebefore', x, y]])
    for x in s['sig'] + s['assertion'] + s['struct']:
        for w in ('Extensions', 'Advice', 'Object', 'Foreign', 'Response'):
            out.append([['wrap', x, w]])
    for e in s['assertion'] + s['response']:
        for sg in s['sig']:
            for pos in ('first', 'last'):
                for how in ('copy', 'gutted'):
                    out.append([['dupsig', e, sg, pos, how]])
    for e in s['assertion'] + s['response']:
        eid = ns[e].getAttribute('ID')
        for f in s['all']:
            if f != e and f not in s['in_sig']:
                out.append([['setid', f, eid]])
    return out


def followups(xml):
    """Follow-up edits of the depth-2 XSW family, evaluated on an already edited document."""
    doc = xmlsec.parse_doc(xml)
    ns, s = sites(doc)
    out = []
    for a in s['assertion'] + s['response']:
        out.append(['setid', a, 'evil-id'])
    for i, e in enumerate(ns):
        if e.namespaceURI == SAML and e.localName in ('NameID', 'AttributeValue') and direct_text(e).strip():
            out.append(['text', i, 'mallory'])
    for sg in s['sig']:
        out.append(['del', sg])
        for y in s['assertion'] + s['response']:
            for pos in ('first', 'last'):
                out.append(['move', sg, y, pos])
                out.append(['copy', sg, y, pos, None])
        for i, e in enumerate(ns):
            if e.localName in ('Issuer', 'Extensions', 'Advice', 'Object', 'SubjectConfirmationData') and i not in s['in_sig']:
                out.append(['move', sg, i, 'last'])
    return out
