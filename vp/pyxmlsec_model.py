"""Environment model of the (absent) pyXMLSecurity package, module name `xmlsec`, as far as
saml2_tophat.sigver.CryptoBackendXMLSecurity uses it: parse_xml, verify(xml, keyspec), XMLSigException.

pyXMLSecurity verifies every ds:Signature of the document against the one key given by the caller (embedded
KeyInfo is not consulted when a keyspec is passed); ID attributes are resolved by value over the whole document.
Built on the same canonicalisation / digest / RSA code as vp/xmlsec.py."""
import sys
import types

from vp import xmlsec as M


class XMLSigException(Exception):
    pass


def parse_xml(data):
    return data


def _all_ids(doc):
    ids = {}
    for e in M.dfs(doc.documentElement):
        if e.hasAttribute('ID'):
            v = e.getAttribute('ID')
            if v in ids:
                raise XMLSigException('duplicate ID %s' % v)
            ids[v] = e
    return ids


def verify(xml, keyspec):
    try:
        doc = M.parse_doc(xml)
        sigs = [e for e in M.dfs(doc.documentElement) if e.namespaceURI == M.DS and e.localName == 'Signature']
        if not sigs:
            raise XMLSigException('no signature')
        key = M.load_pub_file({'--pubkey-cert-pem': keyspec})
        ids = _all_ids(doc)
        for s in sigs:
            if not M.verify_dom(doc, s, key, ids, enabled=set()):
                raise XMLSigException('signature does not verify')
    except M.Fail as e:
        raise XMLSigException(str(e))
    return True


def install():
    """Make `import xmlsec` inside saml2_tophat resolve to this model (only where no real package exists)."""
    if 'xmlsec' not in sys.modules:
        m = types.ModuleType('xmlsec')
        m.parse_xml = parse_xml
        m.verify = verify
        m.XMLSigException = XMLSigException
        m.__vp_model__ = True
        sys.modules['xmlsec'] = m
