"""pytest plugin for the conformance run of upstream's xmlsec-dependent tests against the xmlsec1 model:
shifts the process clock to 2019-06-01 (the fixtures' validUntil dates have passed) and routes
saml2_tophat.sigver.Popen to the in-process model."""
import calendar
import datetime
import time

_real_time = time.time
_real_gmtime = time.gmtime
_real_localtime = time.localtime
TARGET = calendar.timegm((2019, 6, 1, 12, 0, 0))
OFFSET = _real_time() - TARGET


def _t():
    return _real_time() - OFFSET


time.time = _t
time.gmtime = lambda s=None: _real_gmtime(_t() if s is None else s)
time.localtime = lambda s=None: _real_localtime(_t() if s is None else s)
_RD = datetime.datetime


class _M(type(_RD)):
    def __instancecheck__(cls, inst):
        return isinstance(inst, _RD)


class _DT(_RD, metaclass=_M):
    @classmethod
    def utcnow(cls):
        return _RD.utcfromtimestamp(_t())

    @classmethod
    def now(cls, tz=None):
        return _RD.fromtimestamp(_t(), tz) if tz else _RD.utcfromtimestamp(_t())


datetime.datetime = _DT


class _Popen(object):
    def __init__(self, com_list, stderr=None, stdout=None, **kw):
        from vp import xmlsec
        rc, out, err, _info = xmlsec.run(list(com_list[1:]))
        self.returncode = rc
        self._o = out.encode('utf-8')
        self._e = err.encode('utf-8')

    def communicate(self, *a, **k):
        return self._o, self._e


def pytest_configure(config):
    import saml2_tophat.sigver as sigver
    sigver.Popen = _Popen
