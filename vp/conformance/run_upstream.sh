#!/bin/sh
# Conformance: upstream's xmlsec-dependent test modules against the xmlsec1 model (not a property check).
# usage: run_upstream.sh [outfile]   -> writes "<nodeid> <outcome>" lines
HERE="$(cd "$(dirname "$0")/../.." && pwd)"
OUT="${1:-/dev/stdout}"
W="$(mktemp -d /tmp/vp-upstream-XXXXXX)"
trap 'rm -rf "$W"' EXIT
cp -r /repo/tests "$W/tests"
cd "$W/tests" || exit 2
MODS="test_12_s_utils.py test_20_assertion.py test_30_mdstore.py test_37_entity_categories.py test_38_metadata_filter.py test_40_sigver.py test_41_response.py test_42_enc.py test_44_authnresp.py test_50_server.py test_51_client.py test_52_default_sign_alg.py test_63_ecp.py test_64_artifact.py test_65_authn_query.py test_66_name_id_mapping.py test_67_manage_name_id.py test_68_assertion_id.py test_70_redirect_signing.py test_82_pefim.py test_88_nsprefix.py test_89_http_post_relay_state.py"
PATH="$HERE/tools:$PATH" PYTHONPATH="$HERE:/repo/src" PYTHONHASHSEED=0 /venv/bin/python -m pytest -q -p no:cacheprovider -p vp.conformance.upstream_plugin --timeout=600 --continue-on-collection-errors -rA $MODS 2>&1 \
  | grep -E "^(PASSED|FAILED|ERROR) test_" | sed -E 's/ - .*//' | sort > "$W/res.txt"
cp "$W/res.txt" "$OUT" 2>/dev/null || cat "$W/res.txt"
echo "passed: $(grep -c '^PASSED' "$W/res.txt") failed: $(grep -c '^FAILED' "$W/res.txt") error: $(grep -c '^ERROR' "$W/res.txt")" >&2
