"""Worlds: in-process SPs / IdPs built from generated configuration, static keys, forged or generated metadata."""
import hashlib
import os

from vp import env  # noqa: F401  (must be importable first)

ROOT = os.path.dirname(os.path.dirname(os.path.abspath(__file__)))
KEYDIR = os.path.join(ROOT, 'keys')
XMLSEC = os.path.join(ROOT, 'tools', 'xmlsec1')

BINDING_HTTP_POST = 'urn:oasis:names:tc:SAML:2.0:bindings:HTTP-POST'
BINDING_HTTP_REDIRECT = 'urn:oasis:names:tc:SAML:2.0:bindings:HTTP-Redirect'
BINDING_SOAP = 'urn:oasis:names:tc:SAML:2.0:bindings:SOAP'
BINDING_PAOS = 'urn:oasis:names:tc:SAML:2.0:bindings:PAOS'
BINDING_ARTIFACT = 'urn:oasis:names:tc:SAML:2.0:bindings:HTTP-Artifact'
BINDING_URI = 'urn:oasis:names:tc:SAML:2.0:bindings:URI'

IDP_A = 'urn:vp:idpA'
IDP_B = 'urn:vp:idpB'
SP_X = 'urn:vp:spX'
SP_Y = 'urn:vp:spY'
ACS_POST = 'https://spx.example/acs/post'
ACS_REDIRECT = 'https://spx.example/acs/redirect'
ACS_SOAP = 'https://spx.example/acs/soap'
SLO_X = 'https://spx.example/slo'
SSO_A = 'https://idpa.example/sso'
SLO_A = 'https://idpa.example/slo'

MD = 'urn:oasis:names:tc:SAML:2.0:metadata'
PROTO = 'urn:oasis:names:tc:SAML:2.0:protocol'


def key(name):
    return os.path.join(KEYDIR, name + '.key')


def crt(name):
    return os.path.join(KEYDIR, name + '.crt')


_cache = {}


def cert_b64(name):
    if name not in _cache:
        with open(crt(name)) as f:
            s = f.read()
        _cache[name] = ''.join(l for l in s.splitlines() if '-----' not in l)
    return _cache[name]


def priv(name):
    k = ('priv', name)
    if k not in _cache:
        from cryptography.hazmat.primitives import serialization
        with open(key(name), 'rb') as f:
            _cache[k] = serialization.load_pem_private_key(f.read(), None)
    return _cache[k]


def pub(name):
    k = ('pub', name)
    if k not in _cache:
        from cryptography import x509
        with open(crt(name), 'rb') as f:
            _cache[k] = x509.load_pem_x509_certificate(f.read()).public_key()
    return _cache[k]


def esc(s):
    return s.replace('&', '&amp;').replace('<', '&lt;').replace('"', '&quot;')


def key_descriptor(name, use=None):
    u = ' use="%s"' % use if use else ''
    # 'a|b' = one X509Data element holding two certificates (a certificate chain, leaf first)
    certs = ''.join('<ds:X509Certificate>%s</ds:X509Certificate>' % cert_b64(n) for n in name.split('|'))
    return ('<md:KeyDescriptor%s><ds:KeyInfo xmlns:ds="http://www.w3.org/2000/09/xmldsig#"><ds:X509Data>'
            '%s</ds:X509Data></ds:KeyInfo></md:KeyDescriptor>' % (u, certs))


def idp_md(entity_id=IDP_A, keys=(('idpA', 'signing'),), sso=((SSO_A, BINDING_HTTP_REDIRECT),),
           slo=((SLO_A, BINDING_SOAP),), valid_until=None, extra=''):
    kd = ''.join(key_descriptor(n, u) for n, u in keys)
    s = ''.join('<md:SingleLogoutService Binding="%s" Location="%s"/>' % (b, esc(l)) for l, b in slo)
    s += ''.join('<md:SingleSignOnService Binding="%s" Location="%s"/>' % (b, esc(l)) for l, b in sso)
    vu = ' validUntil="%s"' % valid_until if valid_until else ''
    return ('<md:EntityDescriptor xmlns:md="%s" entityID="%s"%s>%s<md:IDPSSODescriptor '
            'protocolSupportEnumeration="%s">%s%s</md:IDPSSODescriptor></md:EntityDescriptor>'
            % (MD, esc(entity_id), vu, extra, PROTO, kd, s))


def sp_md(entity_id=SP_X, keys=(('spX', 'signing'), ('spXenc1', 'encryption')),
          acs=((ACS_POST, BINDING_HTTP_POST, 0), (ACS_REDIRECT, BINDING_HTTP_REDIRECT, 1)),
          slo=((SLO_X, BINDING_SOAP),), requested=(), extra='', authn_requests_signed=None,
          want_assertions_signed=None):
    kd = ''.join(key_descriptor(n, u) for n, u in keys)
    s = ''.join('<md:SingleLogoutService Binding="%s" Location="%s"/>' % (b, esc(l)) for l, b in slo)
    for t in acs:
        l, b = t[0], t[1]
        idx = '' if len(t) < 3 or t[2] is None else ' index="%s"' % t[2]
        dflt = '' if len(t) < 4 or t[3] is None else ' isDefault="%s"' % t[3]
        s += '<md:AssertionConsumerService Binding="%s" Location="%s"%s%s/>' % (b, esc(l), idx, dflt)
    if requested:
        ra = ''
        for r in requested:
            name, friendly, required = r[0], r[1], r[2]
            vals = r[3] if len(r) > 3 else ()
            inner = ''.join('<saml:AttributeValue xmlns:saml="urn:oasis:names:tc:SAML:2.0:assertion">%s'
                            '</saml:AttributeValue>' % esc(v) for v in vals)
            ra += ('<md:RequestedAttribute Name="%s" NameFormat="urn:oasis:names:tc:SAML:2.0:attrname-format:uri"'
                   '%s%s>%s</md:RequestedAttribute>'
                   % (name, ' FriendlyName="%s"' % friendly if friendly else '',
                      ' isRequired="%s"' % ('true' if required else 'false') if required is not None else '', inner))
        s += ('<md:AttributeConsumingService index="0"><md:ServiceName xml:lang="en">vp</md:ServiceName>%s'
              '</md:AttributeConsumingService>' % ra)
    flags = ''
    if authn_requests_signed is not None:
        flags += ' AuthnRequestsSigned="%s"' % ('true' if authn_requests_signed else 'false')
    if want_assertions_signed is not None:
        flags += ' WantAssertionsSigned="%s"' % ('true' if want_assertions_signed else 'false')
    return ('<md:EntityDescriptor xmlns:md="%s" entityID="%s">%s<md:SPSSODescriptor%s '
            'protocolSupportEnumeration="%s">%s%s</md:SPSSODescriptor></md:EntityDescriptor>'
            % (MD, esc(entity_id), extra, flags, PROTO, kd, s))


def entities(*docs):
    return '<md:EntitiesDescriptor xmlns:md="%s">%s</md:EntitiesDescriptor>' % (MD, ''.join(docs))


def write_md(tmpdir, xml):
    h = hashlib.sha1(xml.encode('utf-8')).hexdigest()[:16]
    p = os.path.join(tmpdir, 'md-%s.xml' % h)
    if not os.path.exists(p):
        # several worker processes may want the same document at the same moment: never let one of them read a file
        # another one is still writing
        t = '%s.%d.tmp' % (p, os.getpid())
        with open(t, 'w', encoding='utf-8') as f:
            f.write(xml)
        os.replace(t, p)
    return p


def sp_config(tmpdir, md_docs, entity_id=SP_X, key_name='spX', enc=('spXenc1',), acs=None, top=None, **spopts):
    if acs is None:
        acs = [(ACS_POST, BINDING_HTTP_POST), (ACS_REDIRECT, BINDING_HTTP_REDIRECT), (ACS_SOAP, BINDING_SOAP)]
    sp = {'endpoints': {'assertion_consumer_service': list(acs),
                        'single_logout_service': [(SLO_X, BINDING_SOAP), (SLO_X + '/r', BINDING_HTTP_REDIRECT),
                                                  (SLO_X + '/p', BINDING_HTTP_POST)]}}
    sp.update(spopts)
    c = {'entityid': entity_id, 'service': {'sp': sp}, 'key_file': key(key_name), 'cert_file': crt(key_name),
         'xmlsec_binary': XMLSEC, 'metadata': {'local': [write_md(tmpdir, d) for d in md_docs]},
         'allow_unknown_attributes': True}
    if enc:
        c['encryption_keypairs'] = [{'key_file': key(n), 'cert_file': crt(n)} for n in enc]
    if top:
        c.update(top)
    return c


def make_sp(tmpdir, md_docs=None, **kw):
    from saml2_tophat.config import SPConfig
    from saml2_tophat.client import Saml2Client
    if md_docs is None:
        md_docs = [idp_md()]
    conf = SPConfig()
    conf.load(sp_config(tmpdir, md_docs, **kw))
    return Saml2Client(conf)


def idp_config(tmpdir, md_docs, entity_id=IDP_A, key_name='idpA', policy=None, top=None, endpoints=None, **opts):
    idp = {'endpoints': endpoints or {
        'single_sign_on_service': [(SSO_A, BINDING_HTTP_REDIRECT), (SSO_A + '/post', BINDING_HTTP_POST)],
        'single_logout_service': [(SLO_A, BINDING_SOAP), (SLO_A + '/r', BINDING_HTTP_REDIRECT),
                                  (SLO_A + '/p', BINDING_HTTP_POST)]}}
    if policy is not None:
        idp['policy'] = policy
    idp.update(opts)
    c = {'entityid': entity_id, 'service': {'idp': idp}, 'key_file': key(key_name), 'cert_file': crt(key_name),
         'xmlsec_binary': XMLSEC, 'metadata': {'local': [write_md(tmpdir, d) for d in md_docs]}}
    if top:
        c.update(top)
    return c


def make_idp(tmpdir, md_docs=None, **kw):
    from saml2_tophat.config import IdPConfig
    from saml2_tophat.server import Server
    if md_docs is None:
        md_docs = [sp_md()]
    conf = IdPConfig()
    conf.load(idp_config(tmpdir, md_docs, **kw))
    return Server(config=conf)


def generated_metadata(conf):
    """Metadata XML generated by the library from a loaded Config (C08 / C16 round trip)."""
    from saml2_tophat.metadata import entity_descriptor
    return str(entity_descriptor(conf))
