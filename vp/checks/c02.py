"""C02 - SP signature requirements decide acceptance exactly as documented (full product table)."""
import itertools

from vp import env, world, forge, oracle

_sp_cache = {}
IDP_C = 'urn:vp:idpC'        # known to the SP, publishes an encryption key only


def _sp(tmp, wr, wa, wo, via='SPConfig'):
    k = (wr, wa, wo, via)
    _sp_cache.clear()          # a fresh SP per evaluation: outcomes must not depend on what the SP saw before
    if k not in _sp_cache:
        opts = {}
        if wr is not None:
            opts['want_response_signed'] = wr
        if wa is not None:
            opts['want_assertions_signed'] = wa
        if wo is not None:
            opts['want_assertions_or_response_signed'] = wo
        mds = [world.idp_md(keys=(('idpA', 'signing'),)), world.idp_md(world.IDP_B, keys=(('idpB', 'signing'),)),
               world.idp_md(IDP_C, keys=(('idpAenc', 'encryption'),), sso=(('https://idpc.example/sso', world.BINDING_HTTP_REDIRECT),), slo=())]
        if via == 'SPConfig':
            _sp_cache[k] = world.make_sp(tmp, mds, **opts)
        elif via == 'only-off':
            # certificates outside the metadata are allowed for issuers the metadata holds no key for; idpA has one
            _sp_cache[k] = world.make_sp(tmp, mds, top={'only_use_keys_in_metadata': False}, **opts)
        else:
            # the same configuration dictionary loaded through another documented route: a plain Config, or an
            # IdPConfig whose dictionary carries an idp section next to the sp section
            from saml2_tophat.config import Config, IdPConfig
            from saml2_tophat.client import Saml2Client
            d = world.sp_config(tmp, mds, **opts)
            if via == 'IdPConfig':
                d['service']['idp'] = {'endpoints': {'single_sign_on_service': [('https://spx.example/idp/sso', world.BINDING_HTTP_REDIRECT)]}}
                c = IdPConfig()
            else:
                c = Config()
            c.load(d)
            _sp_cache[k] = Saml2Client(config=c)
    return _sp_cache[k]


def flip_sigvalue(which):
    def f(x):
        # flip one base64 character inside the which-th SignatureValue
        parts = x.split('<ds:SignatureValue>')
        head = parts[which + 1]
        c = head[10]
        head = head[:10] + ('A' if c != 'A' else 'B') + head[11:]
        parts[which + 1] = head
        return '<ds:SignatureValue>'.join(parts)
    return f


IDENTS = {
    'id0': dict(subject='alice', attrs=(('givenName', ('Alice',)), ('mail', ('alice@example.org',)))),
    'id1': dict(subject='bob-é', attrs=(('sn', ('Böb & <co>',)), ('title', ('x', 'y', 'z')))),
}

CORRUPTIONS = ('none', 'ass-content', 'ass-sigvalue', 'resp-content', 'resp-sigvalue', 'ass-wrongkey', 'resp-wrongkey',
               'ass-unfilled-template', 'resp-unfilled-template')


def cells(thorough):
    out = []
    opts = [False, True]
    for wr, wa, wo in itertools.product(opts, repeat=3):
        for sr, sa in itertools.product(opts, repeat=2):
            for enc in (False, True):
                for cor in CORRUPTIONS:
                    if cor.startswith('ass') and not sa:
                        continue
                    if cor.startswith('resp') and not sr:
                        continue
                    if cor.endswith('wrongkey') and not thorough:
                        continue
                    if cor.endswith('unfilled-template') and enc and not thorough:
                        continue
                    for ident in (IDENTS if thorough else ['id0'] if (cor != 'none') else IDENTS):
                        out.append(dict(wr=wr, wa=wa, wo=wo, sr=sr, sa=sa, enc=enc, cor=cor, ident=ident, primed=False))
                        if ident == 'id0':
                            out.append(dict(wr=wr, wa=wa, wo=wo, sr=sr, sa=sa, enc=enc, cor=cor, ident=ident, primed=True))
    # defaults row group: options absent from the configuration must behave as documented defaults
    for sr, sa in itertools.product(opts, repeat=2):
        for enc in (False, True):
            out.append(dict(wr=None, wa=None, wo=None, sr=sr, sa=sa, enc=enc, cor='none', ident='id0', primed=False))
            # ... also when another SP with explicit (lax / strict) options was built earlier in the same process
            for after in ('lax', 'strict'):
                out.append(dict(wr=None, wa=None, wo=None, sr=sr, sa=sa, enc=enc, cor='none', ident='id0', primed=False, after=after))
    # the assertion is encrypted for a per-request key the application hands in (outstanding_certs), not for the
    # SP's static key
    for wr, wa, wo in itertools.product(opts, repeat=3):
        for sr, sa in itertools.product(opts, repeat=2):
            for cor in ('none', 'ass-content', 'resp-sigvalue'):
                if (cor.startswith('ass') and not sa) or (cor.startswith('resp') and not sr):
                    continue
                out.append(dict(wr=wr, wa=wa, wo=wo, sr=sr, sa=sa, enc='percert', cor=cor, ident='id0', primed=False))
    for sr, sa in itertools.product(opts, repeat=2):
        out.append(dict(wr=None, wa=None, wo=None, sr=sr, sa=sa, enc='percert', cor='none', ident='id0', primed=False))
    # an issuer the SP knows but that publishes no signing key: a signature in its name cannot be checked, so a
    # message carrying one is never accepted (made with A's key or a foreign key)
    for wr, wa, wo in itertools.product(opts, repeat=3):
        for sr, sa in ((True, False), (False, True), (True, True)):
            for enc in (False, True):
                for k in ('idpA', 'mallory'):
                    out.append(dict(wr=wr, wa=wa, wo=wo, sr=sr, sa=sa, enc=enc, cor='issuer-without-signing-key:' + k, ident='id0', primed=False))
    # the same table for clients built from another configuration class
    for via in ('Config', 'IdPConfig'):
        for wr, wa, wo in itertools.product(opts, repeat=3):
            for sr, sa in itertools.product(opts, repeat=2):
                out.append(dict(wr=wr, wa=wa, wo=wo, sr=sr, sa=sa, enc=False, cor='none', ident='id0', primed=False, via=via))
    # nothing readable: the only assertion is encrypted for a key the SP does not hold (also right after the same SP
    # accepted a genuine signed and encrypted message)
    for wr, wa, wo in itertools.product(opts, repeat=3):
        for sr in opts:
            for primed in (False, True):
                out.append(dict(wr=wr, wa=wa, wo=wo, sr=sr, sa=False, enc=True, cor='undecryptable', ident='id0', primed=primed))
    # mixed shape: one (validly signed) encrypted assertion next to a plain assertion whose signature is
    # valid / corrupted / absent.  Only the reject direction is demanded here (saml2int allows one assertion).
    for wr, wa, wo in itertools.product(opts, repeat=3):
        for plain in ('signed', 'corrupted', 'unsigned'):
            for sr in opts:
                out.append(dict(wr=wr, wa=wa, wo=wo, sr=sr, sa=True, enc='mixed', cor='plain-' + plain, ident='id0', primed=False))
    # the same table for a response that arrives over the HTTP-Redirect binding (Destination and Recipient name the
    # SP's Redirect endpoint): what has to be signed does not depend on the binding it came over
    for wr, wa, wo in itertools.product(opts, repeat=3):
        for sr, sa in itertools.product(opts, repeat=2):
            for cor in ('none', 'ass-content', 'resp-sigvalue'):
                if (cor.startswith('ass') and not sa) or (cor.startswith('resp') and not sr):
                    continue
                out.append(dict(wr=wr, wa=wa, wo=wo, sr=sr, sa=sa, enc=False, cor=cor, ident='id0', primed=False, binding='redirect'))
    for sr, sa in itertools.product(opts, repeat=2):
        out.append(dict(wr=None, wa=None, wo=None, sr=sr, sa=sa, enc=False, cor='none', ident='id0', primed=False, binding='redirect'))
    # only_use_keys_in_metadata off: the issuer still has its key in the metadata, so a signature made with a foreign
    # key whose certificate travels in the signature is an invalid signature all the same (and the genuine ones are valid)
    for wr, wa, wo in itertools.product(opts, repeat=3):
        for sr, sa in itertools.product(opts, repeat=2):
            for cor in ('none', 'ass-wrongkey+embedded', 'resp-wrongkey+embedded'):
                if (cor.startswith('ass') and not sa) or (cor.startswith('resp') and not sr):
                    continue
                for enc in (False, True):
                    out.append(dict(wr=wr, wa=wa, wo=wo, sr=sr, sa=sa, enc=enc, cor=cor, ident='id0', primed=False, via='only-off'))
    # an assertion inside the Advice of the (plain) main assertion, carrying a signature of its own that is valid /
    # corrupted (its content edited before the enclosing signatures were made, so those stay valid) / absent
    for wr, wa, wo in itertools.product(opts, repeat=3):
        for adv in ('signed', 'corrupted', 'unsigned', 'signed-by-mallory'):
            for sr, sa in itertools.product(opts, repeat=2):
                out.append(dict(wr=wr, wa=wa, wo=wo, sr=sr, sa=sa, enc='advice', cor='advice-' + adv, ident='id0', primed=False))
    return out


TMP = [None]


def build_advice(cell, now):
    adv = cell['cor'][7:]
    inner = forge.assertion(now, aid='ADV1', sign=(adv != 'unsigned'), subject='alice', attrs=(('title', ('ADVICE-ASSERTION',)),))
    outer = forge.assertion(now, aid='A1', sign=bool(cell['sa']), advice=inner, **IDENTS['id0'])
    x = forge.response(now, [outer], sign=bool(cell['sr']))
    if adv != 'unsigned':
        x = forge.sign(x, 'ADV1', 'mallory' if adv == 'signed-by-mallory' else 'idpA')
    if adv == 'corrupted':
        x = x.replace('ADVICE-ASSERTION', 'ADVICE-ASSERTION-EDITED')
    if cell['sa']:
        x = forge.sign(x, 'A1', 'idpA')
    if cell['sr']:
        x = forge.sign(x, 'R1', 'idpA')
    return x


def build_mixed(cell, now):
    plain = cell['cor'][6:]
    a1 = forge.assertion(now, aid='A1', sign=True, **IDENTS['id0'])
    a2 = forge.assertion(now, aid='A2', sign=(plain != 'unsigned'), subject='second', attrs=(('title', ('SECOND-ASSERTION',)),))
    x = forge.response(now, [a1, a2], sign=bool(cell['sr']))
    x = forge.sign(x, 'A1', 'idpA')
    if plain != 'unsigned':
        x = forge.sign(x, 'A2', 'idpA')
    if plain == 'corrupted':
        x = x.replace('SECOND-ASSERTION', 'SECOND-ASSERTION-EDITED')
    x = forge.encrypt_assertions(x, 'spXenc1', which=['A1'])
    if cell['sr']:
        x = forge.sign(x, 'R1', 'idpA')
    return x


def build(cell, now):
    if cell['enc'] == 'mixed':
        return build_mixed(cell, now)
    if cell['enc'] == 'advice':
        return build_advice(cell, now)
    cor = cell['cor']
    a = dict(IDENTS[cell['ident']])
    kw = dict(assertions=[a], sign_resp=False, sign_ass=False)
    if cell.get('binding') == 'redirect':
        kw['resp'] = dict(dest=world.ACS_REDIRECT)
        a['confirmations'] = [forge.confirmation(now, recipient=world.ACS_REDIRECT)]
    nokey = cor.startswith('issuer-without-signing-key:')
    if nokey:
        a['issuer'] = IDP_C
        kw['resp'] = dict(issuer=IDP_C)
    if cell['sa']:
        kw['sign_ass'] = 'mallory' if cor.startswith('ass-wrongkey') else (cor.split(':')[1] if nokey else 'idpA')
        if cor == 'ass-wrongkey+embedded':
            kw['ass_keyinfo'] = 'x509:mallory'
    if cell['sr']:
        kw['sign_resp'] = 'mallory' if cor.startswith('resp-wrongkey') else (cor.split(':')[1] if nokey else 'idpA')
        if cor == 'resp-wrongkey+embedded':
            kw['resp_keyinfo'] = 'x509:mallory'
    if cell['enc'] == 'percert':
        kw['encrypt'] = 'spXenc2'
    elif cell['enc']:
        kw['encrypt'] = 'spXenc1'
    if cor == 'ass-content':
        # edit signed assertion content after the assertion signature, before encryption / response signature
        kw['mutate_after_ass_sign'] = lambda x: x.replace('SessionIndex="s1"', 'SessionIndex="s2"', 1)
    elif cor == 'undecryptable':
        kw['encrypt'] = 'spY'
    elif cor == 'ass-unfilled-template':
        # the signature element is there but nobody ever filled it in
        kw['sign_ass'] = False
        a['extra_first'] = forge.sig_template('A1')
    elif cor == 'resp-unfilled-template':
        kw['sign_resp'] = False
        kw['mutate_final'] = lambda x: x.replace('</saml:Issuer>', '</saml:Issuer>' + forge.sig_template('R1'), 1)
    elif cor == 'ass-sigvalue':
        kw['mutate_after_ass_sign'] = flip_sigvalue(0)
    elif cor == 'resp-content':
        # benign otherwise: the Response's own IssueInstant moves by one second (first occurrence = root attribute)
        kw['mutate_final'] = lambda x: x.replace('IssueInstant="%s"' % forge.ts(now), 'IssueInstant="%s"' % forge.ts(now + 1), 1)
    elif cor == 'resp-sigvalue':
        # the response signature is the first SignatureValue in document order (it precedes the assertion)
        kw["mutate_final"] = flip_sigvalue(0)
    return forge.build(now, **kw)


def expected(cell):
    if cell['enc'] == 'mixed':
        plain = cell['cor'][6:]
        req = (not cell['wr'] or cell['sr']) and (not cell['wa'] or plain == 'signed') and (not cell['wo'] or cell['sr'] or plain == 'signed')
        return None if (req and plain != 'corrupted') else False      # None: acceptance not demanded
    if cell['enc'] == 'advice':
        # a present signature that does not verify is never ignored; otherwise acceptance is not demanded here
        return False if cell['cor'] in ('advice-corrupted', 'advice-signed-by-mallory') else None
    if cell['cor'].startswith('issuer-without-signing-key') or cell['cor'] == 'undecryptable':
        return False
    wr = True if cell['wr'] is None else cell['wr']      # documented default: want_response_signed = True
    wa = bool(cell['wa'])
    wo = bool(cell['wo'])
    req_met = (not wr or cell['sr']) and (not wa or cell['sa']) and (not wo or cell['sr'] or cell['sa'])
    all_valid = cell['cor'] == 'none'
    return req_met and all_valid


PRISTINE = {}


def evaluate(cell):
    env.Clock.set(env.BASE)
    env.reset_rng()
    env.Seam.reset()
    if cell.get('after'):
        _sp(TMP[0], *{'lax': (False, False, False), 'strict': (True, True, True)}[cell['after']])
    sp = _sp(TMP[0], cell['wr'], cell['wa'], cell['wo'], cell.get('via') or 'SPConfig')
    if cell.get('primed'):
        # non-initial state: the same SP has just accepted a genuine, fully signed message with the same IDs
        if cell['enc'] not in PRISTINE:
            PRISTINE[cell['enc']] = forge.build(env.BASE, assertions=[dict(IDENTS['id0'])], sign_resp='idpA', sign_ass='idpA',
                                                encrypt='spXenc1' if cell['enc'] else None)
        first = oracle.accept_response(sp, PRISTINE[cell['enc']])
        if not first['accept']:
            return {'accept': False, 'exc': 'PRIMING-REJECTED:%s' % first.get('exc'), 'tool_calls': 0, 'subject': None}
        env.Seam.reset()
    xml = build(cell, env.BASE)
    # resp-content corruption edits InResponseTo req1->req2: keep the confirmation consistent is not needed,
    # the response signature is broken either way and rejection is required.
    oc = None
    if cell['enc'] == 'percert':
        oc = {'req1': {'key': open(world.key('spXenc2')).read(), 'cert': open(world.crt('spXenc2')).read()}}
    obs = oracle.accept_response(sp, xml, outstanding_certs=oc, **({'binding': world.BINDING_HTTP_REDIRECT} if cell.get('binding') == 'redirect' else {}))
    return {'accept': obs['accept'], 'exc': obs.get('exc'), 'tool_calls': env.Seam.count,
            'subject': (obs.get('identity') or {}).get('name_id', [None])[0] if obs['accept'] else None}


def run(ctx):
    TMP[0] = ctx.tmp
    cs = cells(ctx.thorough)
    res = ctx.pmap(evaluate, cs)
    ctx.recheck(evaluate, cs, res)
    outcomes = {}
    nontrivial = set()
    base_expect = {}
    for c, r in zip(cs, res):
        exp = expected(c)
        outcomes[(r['accept'], r['exc'])] = outcomes.get((r['accept'], r['exc']), 0) + 1
        key = dict(c)
        if (r['exc'] or '').startswith('PRIMING-REJECTED'):
            key = dict(c)
            key['kind'] = 'rejected-but-must-accept'
            ctx.violation(key, {'observed': r, 'note': 'the pristine fully signed message was rejected'})
        elif exp is None:
            pass
        elif r['accept'] != exp:
            key['kind'] = 'accepted-but-must-reject' if r['accept'] else 'rejected-but-must-accept'
            ctx.violation(key, {'observed': r, 'expected_accept': exp})
        elif r['accept'] and c['enc'] != 'mixed' and r['subject'] != forge_subject(c):
            key['kind'] = 'wrong-identity'
            ctx.violation(key, {'observed': r})
        # non-trivial: the cell's expected verdict depends on a requirement or a corruption, i.e. at least one
        # option is on or a signature is present
        if c['wr'] or c['wa'] or c['wo'] or c['sr'] or c['sa']:
            nontrivial.add(tuple(sorted((k, str(v)) for k, v in c.items())))
    n_acc = sum(1 for r in res if r['accept'])
    if n_acc == 0:
        ctx.violation({'kind': 'nothing-accepted'}, {'note': 'no cell of the table is accepted: the acceptance side of the iff fails'})
    samples = [{'cell': cs[i], 'observed': res[i], 'expected_accept': expected(cs[i])} for i in (0, len(cs) // 3, len(cs) // 2, len(cs) - 1)]
    return {
        'level': 'exploration',
        'coverage': {
            'evaluations': len(cs), 'distinct_nontrivial': len(nontrivial),
            'rule': 'complete product: 8 want_* settings (+ options-absent row group, also after an SP with explicit lax / strict options was built in the same process) x {response,assertion} signed x plain / encrypted for the static key / encrypted for a per-request key (outstanding_certs) x corruption kind (content edit / SignatureValue flip / never filled-in signature template%s of each present signature) x identities; clients built from a plain Config and from an IdPConfig carrying both sections; an assertion encrypted for a key the SP does not hold; messages in the name of an issuer that publishes no signing key, signed with the key of another entity or a foreign key; x {fresh SP, SP that has just accepted a genuine message with the same IDs}; non-trivial = at least one requirement enabled or one signature present; distinct = distinct cell coordinates' % (' / signed by a non-metadata key' if ctx.thorough else ''),
            'samples': samples, 'exhaustive': True, 'accepted_cells': n_acc,
            'distinct_outcomes': len(outcomes), 'outcome_histogram': {'%s/%s' % k: v for k, v in sorted(outcomes.items(), key=str)},
            'dimensions': {'want_response_signed': [False, True, 'absent'], 'want_assertions_signed': [False, True, 'absent'],
                           'want_assertions_or_response_signed': [False, True, 'absent'], 'signed': ['none', 'response', 'assertion', 'both'],
                           'encrypted': [False, True], 'corruption': list(CORRUPTIONS), 'identity': sorted(IDENTS)},
        },
        'assumptions': ['xmlsec1 is replaced by the environment model vp/xmlsec.py at saml2_tophat.sigver.Popen (DESIGN 4)',
                        'virtual clock; forged responses are otherwise valid (addressing, timing, status)'],
    }


def forge_subject(c):
    return IDENTS[c['ident']]['subject']


def replay(ctx, w):
    TMP[0] = ctx.tmp
    cell = {k: w.get(k) for k in ('wr', 'wa', 'wo', 'sr', 'sa', 'enc', 'cor', 'ident', 'primed', 'after', 'via')}
    r = evaluate(cell)
    exp = expected(cell)
    return {'violation': exp is not None and r['accept'] != exp, 'observed': r, 'expected_accept': exp}
