"""C11 - no XML entry point resolves entities, DTD content or external resources.

(a) static call-site inventory (complete enumeration of the syntax trees of every module of the package);
(b) payload sweep: every public parse entry point x hostile-document catalogue x truncations, under audit-hook
monitors."""
import ast
import os
import sys

from vp import env, world, forge, schema, xmlsec

TMP = [None]
HARNESS_TOOLS = os.path.normpath(os.path.join(os.path.dirname(os.path.abspath(__file__)), '..', '..', 'tools'))
ET_MODULES = ('xml.etree.ElementTree', 'xml.etree.cElementTree', 'cElementTree', 'elementtree.ElementTree', 'elementtree')
XML_MODULES = ET_MODULES + ('xml.etree.ElementTree', 'xml.etree.cElementTree', 'xml.dom.minidom', 'xml.dom.pulldom', 'xml.dom',
               'xml.sax', 'xml.parsers.expat', 'xml.etree', 'lxml', 'lxml.etree', 'lxml.objectify', 'xmltodict', 'xml')
PARSE_NAMES = {'fromstring', 'XML', 'XMLID', 'parse', 'iterparse', 'XMLParser', 'XMLPullParser', 'parseString',
               'ParserCreate', 'make_parser', 'fromstringlist', 'parseFragment', 'expatbuilder', 'pulldom', 'sax', 'expat',
               'objectify', 'HTML'}
SAFE_ET = {'Element', 'SubElement', 'tostring', 'tostringlist', 'register_namespace', 'iselement', '_namespace_map',
           'QName', 'ParseError', 'ElementTree', 'Comment', 'ProcessingInstruction', 'dump', 'indent', 'canonicalize'}


# ------------------------------------------------------------------ (a) static

def pkg_files():
    import saml2_tophat
    root = os.path.dirname(saml2_tophat.__file__)
    out = []
    for d, _dirs, files in os.walk(root):
        for f in sorted(files):
            if f.endswith('.py'):
                out.append(os.path.join(d, f))
    return sorted(out), root


def dotted(node):
    parts = []
    while isinstance(node, ast.Attribute):
        parts.append(node.attr)
        node = node.value
    if isinstance(node, ast.Name):
        parts.append(node.id)
        return list(reversed(parts))
    return None


def inventory_file(path):
    """Returns list of (lineno, resolved dotted name, verdict) for every XML-parsing reference."""
    src = open(path, encoding='utf-8').read()
    tree = ast.parse(src, path)
    alias = {}          # local name -> set of possible dotted targets (a name may be bound by several imports)
    sites = []
    for node in ast.walk(tree):
        if isinstance(node, ast.Import):
            for a in node.names:
                if a.asname:
                    alias.setdefault(a.asname, set()).add(a.name)
                else:
                    alias.setdefault(a.name.split('.')[0], set()).add(a.name.split('.')[0])
        elif isinstance(node, ast.ImportFrom) and node.module and node.level == 0:
            for a in node.names:
                alias.setdefault(a.asname or a.name, set()).add(node.module + '.' + a.name)
    for node in ast.walk(tree):
        names = []
        if isinstance(node, ast.Attribute):
            d = dotted(node)
            if d and d[0] in alias:
                names = [t.split('.') + d[1:] for t in sorted(alias[d[0]])]
        elif isinstance(node, ast.Name) and isinstance(node.ctx, ast.Load) and node.id in alias:
            names = [t.split('.') for t in sorted(alias[node.id])]
        for name in names:
            full = '.'.join(name)
            mod_is_xml = any(full == m or full.startswith(m + '.') for m in XML_MODULES)
            if full.startswith('defusedxml'):
                if name[-1] in PARSE_NAMES:
                    sites.append((node.lineno, full, 'defused'))
                continue
            if not mod_is_xml:
                continue
            last = name[-1]
            if any(full == m or full.startswith(m + '.') for m in ET_MODULES):
                if isinstance(node, ast.Name):
                    continue                  # bare module reference: its uses are attributes, seen separately
                if last in PARSE_NAMES:
                    sites.append((node.lineno, full, 'UNSAFE'))
                elif last in SAFE_ET or last in ('ElementTree', 'cElementTree', 'etree', 'VERSION'):
                    continue
                else:
                    sites.append((node.lineno, full, 'UNCLASSIFIED'))
            elif full.startswith('lxml'):
                # lxml is only reachable in the optional pyXMLSecurity backend; serialising is fine, parsing is not
                if last in PARSE_NAMES:
                    sites.append((node.lineno, full, 'UNSAFE'))
            else:
                # any reference into xml.dom / xml.sax / expat is a parser entry
                if last not in ('xml',):
                    sites.append((node.lineno, full, 'UNSAFE'))
    # dynamic imports mentioning XML modules
    for node in ast.walk(tree):
        if isinstance(node, ast.Call):
            d = dotted(node.func) if isinstance(node.func, ast.Attribute) else ([node.func.id] if isinstance(node.func, ast.Name) else None)
            if d and d[-1] in ('import_module', '__import__') and node.args:
                a0 = node.args[0]
                if isinstance(a0, ast.Constant) and isinstance(a0.value, str) and any(a0.value.startswith(m) for m in ('xml', 'lxml')):
                    sites.append((node.lineno, 'dynamic-import:' + a0.value, 'UNSAFE'))
    return sorted(set(sites))


# ------------------------------------------------------------------ (b) payloads

CANARY_TEXT = 'CANARY-CONTENT-91f3'
ENT_MARK = 'ENTITY-EXPANDED-77a1'


def payloads(body, root_qname, canary_path):
    """Hostile variants of a well-formed document `body` (str, no XML declaration, root element `root_qname`)."""
    i = body.index('>')
    # put &e; as text right inside the root element
    with_ref = body[:i + 1] + '&e;' + body[i + 1:]
    root = root_qname
    P = []
    P.append(('internal-entity', '<!DOCTYPE %s [<!ENTITY e "%s">]>%s' % (root, ENT_MARK, with_ref), 'reject'))
    P.append(('external-entity-file', '<!DOCTYPE %s [<!ENTITY e SYSTEM "file://%s">]>%s' % (root, canary_path, with_ref), 'reject'))
    P.append(('external-entity-http', '<!DOCTYPE %s [<!ENTITY e SYSTEM "http://canary.invalid/x">]>%s' % (root, with_ref), 'reject'))
    P.append(('parameter-entity', '<!DOCTYPE %s [<!ENTITY %% p SYSTEM "file://%s"> %%p;]>%s' % (root, canary_path, body), 'reject'))
    P.append(('external-dtd', '<!DOCTYPE %s SYSTEM "http://canary.invalid/x.dtd">%s' % (root, body), 'noaccess'))
    P.append(('billion-laughs', '<!DOCTYPE %s [<!ENTITY a "%s"><!ENTITY b "&a;&a;&a;&a;"><!ENTITY e "&b;&b;&b;&b;">]>%s' % (root, ENT_MARK, with_ref), 'reject'))
    # entity declarations that merely repeat HTML's named character references (what documents pasted from a web page carry)
    nb = body[:i + 1] + '&nbsp;' + body[i + 1:]
    P.append(('html-entity-nbsp', '<!DOCTYPE %s [<!ENTITY nbsp "&#160;">]>%s' % (root, nb), 'reject'))
    P.append(('html-entity-copy-unused', '<!DOCTYPE %s [<!ENTITY copy "&#169;"><!ENTITY amp "&#38;#38;">]>%s' % (root, body), 'reject'))
    if root.endswith('EntityDescriptor') and '</%s>' % root in body:
        # a pointer to further metadata documents: following it is a network access caused by document content
        j = body.rindex('</%s>' % root)
        P.append(('additional-metadata-location', body[:j] + '<md:AdditionalMetadataLocation namespace="urn:vp:more">'
                  'https://canary.invalid/more-metadata.xml</md:AdditionalMetadataLocation>' + body[j:], 'noaccess'))
    P.append(('entity-declared-unused', '<!DOCTYPE %s [<!ENTITY e "%s">]>%s' % (root, ENT_MARK, body), 'reject'))
    P.append(('xinclude', body[:i] + ' xmlns:xi="http://www.w3.org/2001/XInclude"' + body[i:i + 1] + '<xi:include href="file://%s" parse="text"/>' % canary_path + body[i + 1:], 'noaccess'))
    P.append(('stylesheet-pi', '<?xml-stylesheet type="text/xsl" href="file://%s"?>%s' % (canary_path, body), 'noaccess'))
    P.append(('schemalocation', body[:i] + ' xmlns:xsi="http://www.w3.org/2001/XMLSchema-instance" xsi:schemaLocation="urn:x file://%s"' % canary_path + body[i:], 'noaccess'))
    ent = '<?xml version="1.0" encoding="%s"?><!DOCTYPE %s [<!ENTITY e "%s">]>%s' % ('%s', root, ENT_MARK, with_ref)
    P.append(('utf16-le-bom-entity', b'\xff\xfe' + (ent % 'UTF-16').encode('utf-16-le'), 'reject'))
    P.append(('utf16-be-bom-entity', b'\xfe\xff' + (ent % 'UTF-16').encode('utf-16-be'), 'reject'))
    P.append(('utf16-le-nobom-entity', (ent % 'UTF-16LE').encode('utf-16-le'), 'reject'))
    P.append(('utf16-be-nobom-entity', (ent % 'UTF-16BE').encode('utf-16-be'), 'reject'))
    P.append(('utf7-decl-entity', (ent % 'UTF-7').encode('utf-8'), 'reject'))
    P.append(('leading-ws-decl-entity', '  \n' + (ent % 'UTF-8'), 'reject'))
    P.append(('nul-bytes', body[:i + 1] + '\x00' + body[i + 1:], 'reject'))
    P.append(('empty', '', 'reject'))
    P.append(('whitespace', '  \n ', 'reject'))
    P.append(('json', '{"a": 1}', 'reject'))
    P.append(('binary', b'\x89PNG\r\n\x1a\n\x00\x00', 'reject'))
    P.append(('two-roots', body + body, 'reject'))
    P.append(('unclosed', body[:body.rindex('<')], 'reject'))
    if '<ds:Reference URI="#' in body:
        import re as _re
        P.append(('signature-reference-file', _re.sub(r'<ds:Reference URI="#[^"]*"', '<ds:Reference URI="file://%s"' % canary_path, body, 1), 'noaccess'))
        P.append(('signature-reference-http', _re.sub(r'<ds:Reference URI="#[^"]*"', '<ds:Reference URI="http://canary.invalid/ref"', body, 1), 'noaccess'))
    return P


def boundaries(body, every):
    if every:
        return list(range(1, len(body)))
    cut = set()
    for j, ch in enumerate(body):
        if ch in '<>':
            cut.add(j)
            cut.add(j + 1)
        if ch in '"= /':
            cut.add(j)
    return sorted(c for c in cut if 0 < c < len(body))


def observe(fn, data):
    """Run one parse call under the audit monitor.  Returns dict(result kind, leaked, events)."""
    env.Seam.reset()
    env.Audit.start()
    res = None
    exc = None
    try:
        res = fn(data)
    except BaseException as e:      # noqa
        exc = type(e).__name__
    ev = env.Audit.stop()
    bad_ev = []
    for e in ev:
        if e[0] == 'open':
            p = e[1]
            if CANARY_TEXT and 'canary' in p:
                bad_ev.append(e)
            elif p.startswith(('/tmp', '/dev/shm', '/var/tmp', TMP[0] or '/nonexistent')) or '/saml2_tophat' in p or p.startswith(('/venv', '/root/.pyenv', '/usr', '/etc/ssl', '/proc', '/sys', '/dev', world.KEYDIR, HARNESS_TOOLS)) or p.isdigit():
                continue
            else:
                bad_ev.append(e)
        else:
            bad_ev.append(e)
    text = ''
    if res is not None and exc is None:
        try:
            text = repr(res) + (str(res) if not isinstance(res, (bytes, bytearray)) else res.decode('utf-8', 'replace'))
            if isinstance(res, dict):
                text += repr(list(res.values()))
            if hasattr(res, '__dict__'):
                text += repr(vars(res))[:20000]
        except Exception:
            pass
    empty = res is None or res == '' or res == b'' or res == {} or res == [] or res is False
    if isinstance(res, tuple) and all(x in (None, {}, [], '') for x in res):
        empty = True
    if isinstance(res, dict) and all(v in (None, [], '', {}) for v in res.values()):
        empty = True
    return {'returned': exc is None and not empty, 'exc': exc, 'leak': CANARY_TEXT in text or ENT_MARK in text,
            'events': bad_ev, 'external': list(env.Seam.external)}


def entry_points():
    """(name, callable(data), example body, root qname, how) for the public parse entries."""
    import saml2_tophat
    from saml2_tophat import samlp, saml, soap, pack, md
    E = []
    resp = forge.response(env.BASE, [forge.assertion(env.BASE)])
    req = forge.request(env.BASE, dest=world.SSO_A)
    E.append(('samlp.response_from_string', samlp.response_from_string, resp, 'samlp:Response'))
    E.append(('samlp.any_response_from_string', samlp.any_response_from_string, resp, 'samlp:Response'))
    E.append(('samlp.authn_request_from_string', samlp.authn_request_from_string, req, 'samlp:AuthnRequest'))
    E.append(('create_class_from_xml_string', lambda d: saml2_tophat.create_class_from_xml_string(samlp.Response, d), resp, 'samlp:Response'))
    E.append(('extension_element_from_string', saml2_tophat.extension_element_from_string, resp, 'samlp:Response'))
    envl = forge.enc_soap(req)
    E.append(('soap.parse_soap_enveloped_saml_thingy', lambda d: soap.parse_soap_enveloped_saml_thingy(d, ['{%s}AuthnRequest' % forge.SAMLP]), envl, 'SOAP-ENV:Envelope'))
    E.append(('soap.parse_soap_enveloped_saml_authn_request', soap.parse_soap_enveloped_saml_authn_request, envl, 'SOAP-ENV:Envelope'))
    E.append(('soap.open_soap_envelope', soap.open_soap_envelope, envl, 'SOAP-ENV:Envelope'))
    E.append(('soap.class_instances_from_soap_enveloped_saml_thingies', lambda d: soap.class_instances_from_soap_enveloped_saml_thingies(d, [samlp]), envl, 'SOAP-ENV:Envelope'))
    E.append(('pack.parse_soap_enveloped_saml', lambda d: pack.parse_soap_enveloped_saml(d, samlp.AuthnRequest), envl, 'SOAP-ENV:Envelope'))
    from saml2_tophat.entity import Entity
    E.append(('Entity.unravel-SOAP', lambda d: Entity.unravel(d, world.BINDING_SOAP, 'authn_request'), envl, 'SOAP-ENV:Envelope'))
    E.append(('Entity.parse_soap_message', Entity.parse_soap_message, envl, 'SOAP-ENV:Envelope'))
    E.append(('Entity.unpack_soap_message', Entity.unpack_soap_message, envl, 'SOAP-ENV:Envelope'))
    mdx = world.idp_md()
    from saml2_tophat.mdstore import InMemoryMetaData, MetaDataFile
    from saml2_tophat.attribute_converter import ac_factory

    def md_parse(d):
        m = InMemoryMetaData(ac_factory())
        m.parse(d)
        return dict(m.items()) or None

    def md_file(d):
        p = os.path.join(TMP[0], 'hostile-md.xml')
        with open(p, 'wb') as f:
            f.write(d if isinstance(d, bytes) else d.encode('utf-8'))
        m = MetaDataFile(ac_factory(), p)
        m.load()
        return dict(m.items()) or None
    E.append(('InMemoryMetaData.parse', md_parse, mdx, 'md:EntityDescriptor'))
    E.append(('MetaDataFile.load', md_file, mdx, 'md:EntityDescriptor'))
    # metadata whose signature is checked against a pinned certificate (file source and remote source of a store)
    from vp import xmlsec as _model
    node = 'urn:oasis:names:tc:SAML:2.0:metadata:EntityDescriptor'
    signed_md = mdx.replace('<md:EntityDescriptor ', '<md:EntityDescriptor ID="MD1" ', 1).replace('>', '>' + forge.sig_template('MD1'), 1)
    signed_md = _model.sign_xml(signed_md, 'MD1', world.priv('mdsigner'))
    signer_sp = world.make_sp(TMP[0], want_response_signed=False)

    def md_file_cert(d):
        p = os.path.join(TMP[0], 'hostile-md-cert.xml')
        with open(p, 'wb') as f:
            f.write(d if isinstance(d, bytes) else d.encode('utf-8'))
        m = MetaDataFile(ac_factory(), p, cert=world.crt('mdsigner'), security=signer_sp.sec, node_name=node)
        ok = m.load()
        return (dict(m.items()) or None) if ok is not False else None

    class _Resp(object):
        def __init__(self, body):
            self.status_code = 200
            self.content = body if isinstance(body, bytes) else body.encode('utf-8')
            self.text = body

    class _Http(object):
        def __init__(self, body):
            self.body = body

        def send(self, url, *a, **k):
            if url != 'https://md.example/fed':
                env.Seam.external.append(('http-fetch-named-by-document', url))
            return _Resp(self.body)

    def md_remote_cert(d):
        from saml2_tophat.mdstore import MetadataStore
        mds = MetadataStore(ac_factory(), signer_sp.config)
        mds.http = _Http(d)
        mds.load('remote', url='https://md.example/fed', cert=world.crt('mdsigner'), node_name=node)
        return list(mds.keys()) or None
    def md_remote_plain(d):
        from saml2_tophat.mdstore import MetadataStore
        mds = MetadataStore(ac_factory(), signer_sp.config)
        mds.http = _Http(d)
        mds.load('remote', url='https://md.example/fed')
        return list(mds.keys()) or None
    E.append(('MetadataStore.load-remote', md_remote_plain, mdx, 'md:EntityDescriptor'))
    E.append(('MetaDataFile.load+cert', md_file_cert, signed_md, 'md:EntityDescriptor'))
    E.append(('MetadataStore.load-remote+cert', md_remote_cert, signed_md, 'md:EntityDescriptor'))
    sp = world.make_sp(TMP[0], want_response_signed=False)
    idp = world.make_idp(TMP[0])

    def enc(d):
        import base64
        return base64.b64encode(d if isinstance(d, bytes) else d.encode('utf-8')).decode()

    def sp_parse(d):
        r = sp.parse_authn_request_response(enc(d), world.BINDING_HTTP_POST, {'req1': '/'})
        return r if (r is not None and r.assertion is not None) else None

    def idp_parse_post(d):
        r = idp.parse_authn_request(enc(d), world.BINDING_HTTP_POST)
        return r if (r is not None and r.message is not None) else None

    def idp_parse_redirect(d):
        import zlib, base64
        c = zlib.compressobj(9, zlib.DEFLATED, -15)
        raw = d if isinstance(d, bytes) else d.encode('utf-8')
        r = idp.parse_authn_request(base64.b64encode(c.compress(raw) + c.flush()).decode(), world.BINDING_HTTP_REDIRECT)
        return r if (r is not None and r.message is not None) else None

    def idp_parse_soap(d):
        r = idp.parse_logout_request(d, world.BINDING_SOAP)
        return r if (r is not None and r.message is not None) else None
    E.append(('Saml2Client.parse_authn_request_response-POST', sp_parse, resp, 'samlp:Response'))
    E.append(('Server.parse_authn_request-POST', idp_parse_post, forge.request(env.BASE, dest=world.SSO_A + '/post'), 'samlp:AuthnRequest'))
    E.append(('Server.parse_authn_request-Redirect', idp_parse_redirect, req, 'samlp:AuthnRequest'))
    E.append(('Server.parse_logout_request-SOAP', idp_parse_soap, forge.enc_soap(forge.request(env.BASE, kind='LogoutRequest', dest=world.SLO_A)), 'SOAP-ENV:Envelope'))
    # every other request type that travels over SOAP has an unpacking function of its own
    for meth, kind in (('parse_authz_decision_query', 'AuthzDecisionQuery'), ('parse_authn_query', 'AuthnQuery'), ('parse_attribute_query', 'AttributeQuery'),
                       ('parse_name_id_mapping_request', 'NameIDMappingRequest'), ('parse_manage_name_id_request', 'ManageNameIDRequest'),
                       ('parse_assertion_id_request', 'AssertionIDRequest')):
        def f(d, meth=meth):
            r = getattr(idp, meth)(d, world.BINDING_SOAP)
            return r if (r is not None and r.message is not None) else None
        try:
            E.append(('Server.%s-SOAP' % meth, f, forge.enc_soap(forge.request(env.BASE, kind=kind)), 'SOAP-ENV:Envelope'))
        except Exception:
            pass
    return E


# entry points whose valid example the pinned tree cannot unpack at all (no SOAP reader for the message type): the
# hostile variants must be refused all the same
BASELINE_MAY_FAIL = {'Server.parse_authz_decision_query-SOAP', 'Server.parse_authn_query-SOAP', 'Server.parse_attribute_query-SOAP',
                     'Server.parse_name_id_mapping_request-SOAP', 'Server.parse_manage_name_id_request-SOAP', 'Server.parse_assertion_id_request-SOAP'}
EP = {}


def eps():
    if not EP:
        for t in entry_points():
            EP[t[0]] = t
    return EP


def evaluate(task):
    kind = task[0]
    env.Clock.set(env.BASE)
    canary = os.path.join(TMP[0], 'canary-file.txt')
    if not os.path.exists(canary):
        with open(canary, 'w') as f:
            f.write(CANARY_TEXT)
    out = []
    if kind == 'ep':
        _k, name, every = task
        _n, fn, body, root = eps()[name]
        base = observe(fn, body)
        if not base['returned'] and name not in BASELINE_MAY_FAIL:
            out.append((name, 'baseline', 'valid-document-not-parsed:%s' % base['exc']))
        for pname, data, expect in payloads(body, root, canary):
            o = observe(fn, data)
            out.append((name, pname, judge(o, expect)))
            if expect == 'reject':
                # non-initial state: a good document, the hostile one (refused), the very same hostile one again
                observe(fn, body)
                observe(fn, data)
                o2 = observe(fn, data)
                y = judge(o2, expect)
                out.append((name, pname + '@repeated-after-a-good-document', y))
        for cut in boundaries(body, every):
            o = observe(fn, body[:cut])
            out.append((name, 'prefix', judge(o, 'reject') and judge(o, 'reject') + '@%d' % cut))
        return out
    if kind == 'classes':
        _k, names = task
        classes = {schema.cname(c): c for c in schema.discover()}
        for cn in names:
            cls = classes[cn]
            mod = sys.modules[cls.__module__]
            f = getattr(mod, 'ELEMENT_FROM_STRING', {}).get(cls.c_tag)
            if f is None:
                continue
            body = schema.base_instance(cls, 1).to_string().decode('utf-8')
            body = body[body.index('?>') + 2:].lstrip() if body.startswith('<?xml') else body
            root = body[1:body.index(' ')] if ' ' in body[:body.index('>')] else body[1:body.index('>')].rstrip('/')
            for pname, data, expect in payloads(body, root, canary)[:8] + payloads(body, root, canary)[10:13]:
                o = observe(f, data)
                out.append((cn, pname, judge(o, expect)))
            o = observe(f, body[:max(1, len(body) // 2)])
            out.append((cn, 'prefix', judge(o, 'reject')))
        return out
    if kind == 'seam':
        return seam_items()
    if kind == 'big':
        # large metadata aggregates (padded to `size` bytes), damaged: never a partially populated store
        _k, size, cut_name, how = task
        from saml2_tophat.mdstore import InMemoryMetaData, MetaDataFile
        from saml2_tophat.attribute_converter import ac_factory
        pad = '<md:Extensions><p:Pad xmlns:p="urn:vp:pad">%s</p:Pad></md:Extensions>' % ('x' * 60000)
        ents = []
        i = 0
        while sum(len(e) for e in ents) < size:
            e = world.idp_md('urn:vp:big-%d' % i, extra=pad).replace(' xmlns:md="%s"' % world.MD, '', 1)
            ents.append(e)
            i += 1
        body = '<md:EntitiesDescriptor xmlns:md="%s">%s</md:EntitiesDescriptor>' % (world.MD, ''.join(ents))
        cuts = {'whole': len(body), 'quarter': len(body) // 4, 'half': len(body) // 2, 'after-an-entity': body.index('</md:EntityDescriptor>', len(body) // 2) + 22,
                'inside-last-entity': len(body) - 3000, 'root-end-tag-missing': len(body) - len('</md:EntitiesDescriptor>'), 'last-byte-missing': len(body) - 1}
        data = body[:cuts[cut_name]]
        if cut_name == 'garbage-in-the-middle':
            data = body
        if how == 'parse':
            def fn(d):
                m = InMemoryMetaData(ac_factory())
                m.parse(d)
                return list(m.keys()) or None
        else:
            def fn(d):
                p = os.path.join(TMP[0], 'big-%d-%s.xml' % (os.getpid(), cut_name))
                with open(p, 'w', encoding='utf-8') as f:
                    f.write(d)
                m = MetaDataFile(ac_factory(), p)
                m.load()
                os.unlink(p)
                return list(m.keys()) or None
        o = observe(fn, data)
        name = 'metadata-aggregate-%dMiB-%s' % (size >> 20, how)
        if cut_name == 'whole':
            return [(name, 'baseline', None if o['returned'] else 'valid-document-not-parsed:%s' % o['exc'])]
        return [(name, 'truncated:' + cut_name, judge(o, 'reject'))]


def judge(o, expect):
    if o['events']:
        return 'external-access:%s' % (o['events'][0],)
    if any(x[0] == 'entity-declaration' for x in o['external']):
        return 'entity-declaring-document-handed-to-the-tool:%s' % ([x for x in o['external'] if x[0] == 'entity-declaration'][0],)
    if [x for x in o['external'] if x[0] != 'doctype']:
        return 'tool-asked-to-dereference:%s' % ([x for x in o['external'] if x[0] != 'doctype'][0],)
    if o['leak']:
        return 'entity-or-file-content-in-result'
    if expect == 'reject' and o['returned']:
        return 'hostile-or-malformed-document-returned-as-valid'
    return None


def seam_items():
    """Content that is an instruction to xmlsec1 rather than to the Python parser."""
    out = []
    sp = world.make_sp(TMP[0], want_response_signed=False)
    good = forge.build(env.BASE, sign_resp='idpA')
    items = []
    for label, uri in (('file', 'file:///etc/hostname'), ('http', 'http://canary.invalid/x'), ('relative', 'other.xml'), ('xpointer-root', '#xpointer(/)')):
        items.append(('reference-uri-' + label, good.replace('URI="#R1"', 'URI="%s"' % uri)))
    items.append(('retrieval-method', good.replace('</ds:SignatureValue>', '</ds:SignatureValue><ds:KeyInfo><ds:RetrievalMethod URI="http://canary.invalid/key"/></ds:KeyInfo>')))
    items.append(('keyname', good.replace('</ds:SignatureValue>', '</ds:SignatureValue><ds:KeyInfo><ds:KeyName>../../etc/passwd</ds:KeyName></ds:KeyInfo>')))
    items.append(('doctype-external-subset', '<!DOCTYPE samlp:Response SYSTEM "http://canary.invalid/x.dtd">' + good))
    enc = forge.build(env.BASE, sign_ass='idpA', encrypt='spXenc1')
    import re
    enc_cr = re.sub(r'(<xenc:CipherData><xenc:CipherValue>)([^<]{200,})(</xenc:CipherValue></xenc:CipherData></xenc:EncryptedData>)',
                    '<xenc:CipherData><xenc:CipherReference URI="http://canary.invalid/cipher"/></xenc:CipherData></xenc:EncryptedData>', enc, flags=re.S)
    if enc_cr != enc:
        items.append(('cipher-reference', enc_cr))
    # first decryption round answered with an entity-declaring document that still holds EncryptedData
    items.append(('decrypt-output-declares-entity@round-1', enc))
    for label, doc in items:
        from vp import oracle
        env.Seam.reset({'from:0:--decrypt': 'out-doctype-still-encrypted'} if label.startswith('decrypt-output') else None)
        env.Audit.start()
        obs = oracle.accept_response(sp, doc)
        ev = [e for e in env.Audit.stop() if e[0] != 'open']
        why = None
        if label.startswith('decrypt-output'):
            # only the first --decrypt call is answered that way; a later tool call must never see the declaration
            ndec = [e for e in env.Seam.log if e['cmd'] == '--decrypt']
            if not ndec:
                why = 'vacuous:no-decrypt-call'
            elif any(x[0] == 'entity-declaration' for x in env.Seam.external):
                why = 'entity-declaring-document-handed-to-the-tool:%s' % ([x for x in env.Seam.external if x[0] == 'entity-declaration'][0],)
            elif obs['accept']:
                why = 'entity-declaring-tool-output-accepted'
            out.append(('xmlsec1-seam', label, why))
            continue
        if env.Seam.external and not all(x[0] == 'doctype' for x in env.Seam.external):
            why = 'tool-asked-to-dereference:%s' % ([x for x in env.Seam.external if x[0] != 'doctype'][0],)
        elif ev:
            why = 'external-access:%s' % (ev[0],)
        out.append(('xmlsec1-seam', label, why))
        if any(x[0] == 'doctype' for x in env.Seam.external):
            out.append(('xmlsec1-seam', label + ':doctype-reached-tool', None))
    return out


BIG_CUTS = ('whole', 'quarter', 'half', 'after-an-entity', 'inside-last-entity', 'root-end-tag-missing', 'last-byte-missing')


def run(ctx):
    TMP[0] = ctx.tmp
    files, root = pkg_files()
    sites = []
    for f in files:
        try:
            for ln, full, verdict in inventory_file(f):
                sites.append((os.path.relpath(f, root), ln, full, verdict))
        except SyntaxError as e:
            ctx.violation({'kind': 'unparseable-module', 'file': os.path.relpath(f, root)}, {'err': str(e)})
    n_def = sum(1 for s in sites if s[3] == 'defused')
    for rel, ln, full, verdict in sites:
        if verdict != 'defused':
            ctx.violation({'kind': 'xml-parser-call-site-not-defused' if verdict == 'UNSAFE' else 'xml-call-site-unclassified',
                           'file': rel, 'call': full}, {'line': ln})
    names = sorted(eps())
    tasks = [('ep', n, ctx.thorough) for n in names]
    cl = sorted(schema.cname(c) for c in schema.discover())
    tasks += [('classes', cl[i:i + 40]) for i in range(0, len(cl), 40)]
    tasks.append(('seam',))
    for size in ((3 << 20,) if not ctx.thorough else (1 << 20, 3 << 20, 12 << 20)):
        for cut in BIG_CUTS:
            for how in ('parse', 'file'):
                tasks.append(('big', size, cut, how))
    res = ctx.pmap(evaluate, tasks, chunksize=1)
    n = 0
    nontriv = set()
    notes = []
    for t, outs in zip(tasks, res):
        for name, pname, why in outs:
            n += 1
            nontriv.add((name, pname))
            if pname.endswith(':doctype-reached-tool'):
                notes.append(pname)
            if why:
                ctx.violation({'kind': why.split(':')[0].split('@')[0], 'entry': name, 'payload': pname}, {'detail': why[:300]})
    if notes:
        ctx.note('a document with a DOCTYPE (no entity declarations) passes the defused Python parse and reaches the tool: %s (xmlsec1 >= 1.2.24 loads no external subset; recorded, not flagged)' % sorted(set(notes)))
    return {
        'level': 'exploration',
        'coverage': {
            'evaluations': n + len(sites), 'distinct_nontrivial': len(nontriv), 'exhaustive': True,
            'static_modules': len(files), 'static_parser_call_sites': len(sites), 'static_defused_sites': n_def,
            'entry_points': names, 'schema_from_string_functions': len(cl),
            'rule': '(a) ast walk over every module of the package: every reference that can turn text into an XML tree (fromstring/XML/parse/iterparse/XMLParser/parseString/ParserCreate/..., resolved through import aliases; any use of xml.dom, xml.sax, expat, lxml) must resolve to defusedxml; stdlib ElementTree only for building/serialising. (b) %d public parse entry points x 23 hostile payloads (entities internal/external/parameter, external DTD, billion laughs, XInclude, stylesheet PI, schemaLocation, UTF-16 LE/BE with and without BOM, UTF-7, leading whitespace, NUL, non-XML) x %s of a valid message; every registered *_from_string of every schema class x 11 payloads; metadata with a pinned signer certificate (file source and remote source of a store) incl. an external URI in the metadata signature Reference; 3 MiB metadata aggregates (thorough: 1, 3, 12 MiB) truncated at 6 places; tool-seam items (external Reference URI, RetrievalMethod, KeyName, CipherReference, DOCTYPE) through the real SP; oracle: audit hook (open/socket/urllib/subprocess) + canary strings + result must be exception/None for hostile and malformed input' % (len(names), 'every byte prefix' if ctx.thorough else 'every structural-boundary prefix'),
            'samples': [{'static_sites': [list(s) for s in sites[:4]]}, {'entry': names[0]}],
        },
        'assumptions': ['static inventory resolves import aliases but has no data flow', 'audit hook whitelist: temp dir, package dir, interpreter/site-packages, keys',
                        'xmlsec1 model records (never performs) external dereferences'],
    }


def replay(ctx, w):
    TMP[0] = ctx.tmp
    if 'file' in w:
        files, root = pkg_files()
        for f in files:
            if os.path.relpath(f, root) == w['file']:
                return {'violation': any(v != 'defused' and full == w['call'] for _l, full, v in inventory_file(f))}
    if w['entry'] == 'xmlsec1-seam':
        return {'violation': any(why for _n, p, why in seam_items() if p == w['payload'])}
    if w['entry'].startswith('metadata-aggregate-'):
        _m, _a, size, how = w['entry'].rsplit('-', 3)[0], None, int(w['entry'].split('-')[2][:-3]) << 20, w['entry'].rsplit('-', 1)[1]
        outs = evaluate(('big', size, w['payload'].split(':', 1)[1] if ':' in w['payload'] else 'whole', how))
    elif w['entry'] in eps():
        outs = evaluate(('ep', w['entry'], True))
    else:
        outs = evaluate(('classes', [w['entry']]))
    return {'violation': any(why for _n, p, why in outs if p == w['payload'])}
