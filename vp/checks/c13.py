"""C13 - schema validation rejects every structurally invalid message (table-driven, each constraint violated in
isolation at the root and under every parent), and accepts instances that satisfy all declared constraints."""
import itertools

from vp import schema

XSI_NIL = '{http://www.w3.org/2001/XMLSchema-instance}nil'
CHECKED = ('dateTime', 'boolean', 'integer', 'nonNegativeInteger', 'positiveInteger', 'PositiveInteger',
           'unsignedShort', 'unsignedByte', 'unsignedInt', 'unsignedLong', 'duration')
BAD_ENUM = 'not-in-the-enumeration'


def overrides_verify(cls):
    from saml2_tophat import SamlBase
    return cls.verify is not SamlBase.verify


def tree_classes(cls, depth=2, stack=()):
    out = {cls}
    if depth > 0:
        for tag, (name, spec) in cls.c_children.items():
            k = spec[0] if isinstance(spec, list) else spec
            if k is None or k in stack:
                continue
            out |= tree_classes(k, depth - 1, stack + (cls,))
    return out


def attr_type_info(typ):
    """('simple', localname) | ('enum', values) | ('base', localname) | None for an attribute type"""
    if isinstance(typ, type):
        spec = getattr(typ, 'c_value_type', None)
        if not spec:
            return None
        if 'enumeration' in spec:
            return ('enum', spec['enumeration'])
        if spec.get('base') and spec.get('base') != 'list':
            return ('simple', schema.local_type(spec['base']))
        return None
    return ('simple', schema.local_type(typ))


def constraints(cls):
    """All declared constraints of a class as (descriptor, violator(x))."""
    out = []
    for xmlattr, (name, typ, req) in sorted(cls.c_attributes.items(), key=lambda kv: str(kv[0])):
        if req:
            out.append((['required-attr-missing', name], lambda x, n=name: setattr(x, n, None)))
            out.append((['required-attr-empty', name], lambda x, n=name: setattr(x, n, '')))
        ti = attr_type_info(typ)
        if ti and ti[0] == 'enum':
            out.append((['attr-not-in-enumeration', name], lambda x, n=name: setattr(x, n, BAD_ENUM)))
        elif ti and ti[0] == 'simple' and ti[1] in CHECKED:
            for bad in schema.BAD[ti[1]]:
                out.append((['attr-ill-typed', name, ti[1], bad], lambda x, n=name, b=bad: setattr(x, n, b)))
    names = []
    for tag, (name, spec) in cls.c_children.items():
        if name in names:
            continue
        names.append(name)
        card = cls.c_cardinality.get(name)
        if not card:
            continue
        k = spec[0] if isinstance(spec, list) else spec
        if k is None:
            continue
        cmin, cmax = card.get('min'), card.get('max')
        if cmin:
            def f(x, nm=name, n=int(cmin) - 1, k=k, lst=isinstance(spec, list)):
                setattr(x, nm, [schema.base_instance(k, 1) for _ in range(n)] if lst else None)
            out.append((['child-below-min', name, cmin], f))
        if cmax is not None and isinstance(spec, list):
            try:
                m = int(cmax)
            except (TypeError, ValueError):
                m = None
            if m is not None:
                def g(x, nm=name, n=m + 1, k=k):
                    setattr(x, nm, [schema.base_instance(k, 1) for _ in range(n)])
                out.append((['child-above-max', name, cmax], g))
    vt = cls.c_value_type
    if vt and not overrides_verify(cls):
        if 'enumeration' in vt:
            out.append((['text-not-in-enumeration'], lambda x: setattr(x, 'text', BAD_ENUM)))
        else:
            b = schema.local_type(vt.get('base')) if vt.get('base') != 'list' else None
            if b in CHECKED:
                for bad in schema.BAD[b]:
                    out.append((['text-ill-typed', b, bad], lambda x, v=bad: setattr(x, 'text', v)))
    return out


def class_rules(cls):
    """Violations of rules a class declares in its own verify() rather than in its tables (hand-written list).  They
    are judged differentially: only if the violation is refused at the root must it be refused at every depth."""
    from saml2_tophat import saml
    cn = schema.cname(cls)
    out = []
    if cn == 'saml.Conditions':
        # [SAML core 2.5.1] at most one OneTimeUse and at most one ProxyRestriction, independently of each other: the
        # only occurrence bounds of this kind; judged absolutely (every combination of 0..2 x 0..3 with an excess)
        for n_otu, n_pr in itertools.product((0, 1, 2), (0, 1, 2, 3)):
            if n_otu > 1 or n_pr > 1:
                def combo(x, a=n_otu, b=n_pr):
                    x.one_time_use = [saml.OneTimeUse() for _ in range(a)]
                    x.proxy_restriction = [saml.ProxyRestriction() for _ in range(b)]
                out.append((['class-bound', 'one-time-use=%d' % n_otu, 'proxy-restriction=%d' % n_pr], combo))
    elif cn == 'saml.AuthnContext':
        def both(x):
            x.authn_context_decl = saml.AuthnContextDecl(text='decl')
            x.authn_context_decl_ref = saml.AuthnContextDeclRef(text='urn:x:ref')
        out.append((['class-rule', 'decl-and-declref'], both))
    elif cn == 'saml.Assertion':
        def bare(x):
            x.subject = None
            x.attribute_statement, x.statement, x.authn_statement, x.authz_decision_statement = [], [], [], []
        out.append((['class-rule', 'no-subject-no-statement'], bare))
        out.append((['class-rule', 'authn-statement-without-subject'], lambda x: setattr(x, 'subject', None)))
    elif cn == 'saml.AttributeValue':
        def empty(x):
            object.__setattr__(x, 'text', None)
            object.__setattr__(x, 'extension_attributes', {})
        out.append((['class-rule', 'empty-without-nil'], empty))
    elif cn == 'saml.SubjectLocality':
        def addr(x):
            x.address = 'not-an-address'
            x.dns_name = None
        out.append((['class-rule', 'address-not-ip'], addr))
    return out


def validates(x):
    """('ok', None) | ('rejected', exc name) -- any exception counts as rejection"""
    from saml2_tophat.validate import valid_instance
    try:
        r = valid_instance(x)
        return ('ok' if r else 'falsy', None)
    except Exception as e:
        return ('rejected', type(e).__name__)


def xml_forms(p, member, is_list, cls, viol):
    """The nested violation again, after a trip through XML text in forms an instance built through the API never has:
    indented, the offending element behind a conforming equal-looking sibling, same-tag siblings separated by
    another child.  Yields (form, reason or None)."""
    import saml2_tophat
    from xml.etree import ElementTree as ET

    def build(members):
        px = schema.base_instance(p, 1)
        setattr(px, member, members if is_list else members[0])
        return px

    def reparse(tree):
        return saml2_tophat.create_class_from_xml_string(p, ET.tostring(tree))
    out = []
    try:
        cx = schema.base_instance(cls, 2)
        viol(cx)
        tree = ET.fromstring(build([cx]).to_string())
        ET.indent(tree)
        y = reparse(tree)
        out.append(('indented', 'violation-accepted-when-nested' if (y is not None and validates(y)[0] == 'ok') else None))
        if is_list:
            good = schema.base_instance(cls, 2)
            cx = schema.base_instance(cls, 2)
            viol(cx)
            px = build([good, cx])
            out.append(('after-conforming-sibling', 'violation-accepted-when-nested' if validates(px)[0] == 'ok' else None))
            # one level up: two sibling containers, the later one equal to the first plus one offending extra item
            for g, gmember, g_list in parents_of(p):
                if not g_list:
                    continue
                gx = schema.base_instance(g, 1)
                setattr(gx, gmember, [build([schema.base_instance(cls, 2)])])
                if validates(gx)[0] != 'ok':
                    continue
                setattr(gx, gmember, [build([schema.base_instance(cls, 2)]), build([schema.base_instance(cls, 2), cx])])
                out.append(('extra-item-in-later-sibling-container:' + schema.cname(g),
                            'violation-accepted-when-nested' if validates(gx)[0] == 'ok' else None))
                break
            tree = ET.fromstring(build([cx, good]).to_string())
            tag = '{%s}%s' % (cls.c_namespace, cls.c_tag)
            mine = [c for c in tree if c.tag == tag]
            others = [c for c in tree if c.tag != tag]
            if len(mine) == 2 and others:
                for c in list(tree):
                    tree.remove(c)
                for c in [mine[0], others[0], mine[1]] + others[1:]:
                    tree.append(c)
                y = reparse(tree)
                out.append(('siblings-interleaved', 'violation-accepted-when-nested' if (y is not None and validates(y)[0] == 'ok') else None))
    except Exception:
        pass
    return out


PARENTS = {}


def parents_of(cls):
    if not PARENTS:
        for p in schema.discover():
            for tag, (name, spec) in p.c_children.items():
                k = spec[0] if isinstance(spec, list) else spec
                if k is not None:
                    PARENTS.setdefault(k, []).append((p, name, isinstance(spec, list)))
    return PARENTS.get(cls, [])


CFG = {'all_parents': False, 'deep': False}
VALIDATION_ERRORS = ('NotValid', 'MustValueError', 'OutsideCardinality', 'ShouldValueError', 'ValueError')


_PRIMED = []


def prime():
    """Non-initial state of the validator: every value the violations below use has been seen before as the content of
    a plain string element (where it is perfectly valid)."""
    if _PRIMED:
        return
    _PRIMED.append(1)
    from saml2_tophat import saml
    from saml2_tophat.validate import valid_instance
    vals = [BAD_ENUM] + [v for lst in schema.BAD.values() for v in lst]
    for v in vals:
        for inst in (saml.NameID(text=v), saml.Audience(text='urn:' + v) if False else saml.NameID(text=v, format=saml.NAMEID_FORMAT_PERSISTENT)):
            try:
                valid_instance(inst)
            except Exception:
                pass


def evaluate(names):
    prime()
    classes = {schema.cname(c): c for c in schema.discover()}
    res = []
    for cn in names:
        cls = classes[cn]
        bad = []
        n = 0
        # acceptance side: the base instance satisfies every declared constraint
        x = schema.base_instance(cls, 2)
        st, exc = validates(x)
        n += 1
        special = any(overrides_verify(k) for k in tree_classes(cls))
        base_ok = (st == 'ok')
        if st != 'ok':
            if exc not in VALIDATION_ERRORS:
                bad.append((['valid-instance'], 'valid-instance-crashes-validation:%s' % exc))
            elif not special:
                bad.append((['valid-instance'], 'valid-instance-rejected:%s' % exc))
        if base_ok:
            # acceptance side: every other valid lexical form of a checked simple type
            for xmlattr, (name, typ, req) in sorted(cls.c_attributes.items(), key=lambda kv: str(kv[0])):
                ti = attr_type_info(typ)
                if ti and ti[0] == 'simple' and ti[1] in schema.GOOD_ALT:
                    for good in schema.GOOD_ALT[ti[1]]:
                        xg = schema.base_instance(cls, 2)
                        setattr(xg, name, good)
                        n += 1
                        st, exc = validates(xg)
                        if st != 'ok':
                            bad.append((['valid-spelling', name, ti[1], good], 'valid-instance-rejected:%s' % exc))
            for desc, viol in constraints(cls) + class_rules(cls):
                x = schema.base_instance(cls, 2)
                viol(x)
                n += 1
                st, exc = validates(x)
                if desc[0] in ('class-rule', 'class-bound'):
                    try:
                        x.verify()          # the class's own rule set
                        st = 'ok'
                    except Exception:
                        st = 'rejected'
                if st == 'ok':
                    if desc[0] == 'class-rule':
                        continue            # not (or no longer) a rule of this class: nothing to demand below
                    bad.append((desc, 'violation-accepted-at-root'))
                if desc[0] not in ('class-rule', 'class-bound'):
                    # the same violation on an element that also has an unknown child element, and after a trip through
                    # XML text (what a receiver validates is always a parsed instance)
                    from saml2_tophat import ExtensionElement
                    import saml2_tophat
                    xe = schema.base_instance(cls, 2)
                    viol(xe)
                    xe.extension_elements.append(ExtensionElement('Foo', namespace='urn:vp:foreign', text='t'))
                    n += 1
                    if validates(xe)[0] == 'ok':
                        bad.append((desc + ['with-unknown-child'], 'violation-accepted-at-root'))
                    xp = schema.base_instance(cls, 2)
                    viol(xp)
                    try:
                        yp = saml2_tophat.create_class_from_xml_string(cls, xp.to_string())
                    except Exception:
                        yp = None
                    if yp is not None:
                        n += 1
                        if validates(yp)[0] == 'ok':
                            bad.append((desc + ['after-parsing'], 'violation-accepted-at-root'))
                if desc[0] != 'class-rule':
                    # the same violation inside an element that also carries xsi:nil="true" (a foreign attribute for
                    # every class but AttributeValue): still a violation
                    xn = schema.base_instance(cls, 2)
                    viol(xn)
                    xn.extension_attributes[XSI_NIL] = 'true'
                    n += 1
                    try:
                        if desc[0] == 'class-bound':
                            xn.verify()
                            stn = 'ok'
                        else:
                            stn = validates(xn)[0]
                    except Exception:
                        stn = 'rejected'
                    if stn == 'ok' and schema.cname(cls) != 'saml.AttributeValue':
                        bad.append((desc + ['with-xsi-nil'], 'violation-accepted-at-root'))
                ps = parents_of(cls)
                if not CFG['all_parents']:
                    ps = ps[:1]
                for p, member, is_list in ps:
                    px = schema.base_instance(p, 1)
                    if validates(px)[0] != 'ok':
                        continue
                    cx = schema.base_instance(cls, 2)
                    viol(cx)
                    setattr(px, member, [cx] if is_list else cx)
                    n += 1
                    st, exc = validates(px)
                    if st == 'ok':
                        bad.append((desc + ['under', schema.cname(p)], 'violation-accepted-when-nested'))
                    elif (p, member) == (ps[0][0], ps[0][1]) and desc[0] not in ('class-rule', 'class-bound'):
                        # (class rules are about object states that need not survive serialisation)
                        for form, why in xml_forms(p, member, is_list, cls, viol):
                            n += 1
                            if why:
                                bad.append((desc + ['under', schema.cname(p), form], why))
                    if CFG['deep']:
                        # one level deeper: the parent itself nested under one of its own parents
                        for g, gmember, g_list in parents_of(p):
                            gx = schema.base_instance(g, 1)
                            if validates(gx)[0] != 'ok':
                                continue
                            setattr(gx, gmember, [px] if g_list else px)
                            n += 1
                            if validates(gx)[0] == 'ok':
                                bad.append((desc + ['under', schema.cname(p), 'under', schema.cname(g)], 'violation-accepted-when-nested'))
        res.append((cn, n, bad, base_ok))
    return res


def run(ctx):
    CFG['all_parents'] = True
    CFG['deep'] = ctx.thorough
    classes = schema.discover()
    names = sorted(schema.cname(c) for c in classes)
    chunks = [names[i:i + 24] for i in range(0, len(names), 24)]
    res = ctx.pmap(evaluate, chunks, chunksize=1)
    ctx.recheck(evaluate, chunks, res, n=2)
    n = 0
    nontriv = set()
    n_base_ok = 0
    n_constraints = 0
    for out in res:
        for cn, k, bad, base_ok in out:
            n += k
            n_base_ok += base_ok
            if k > 1:
                nontriv.add(cn)
            n_constraints += max(0, k - 1)
            for desc, why in bad:
                ctx.violation({'kind': why.split(':')[0], 'class': cn, 'constraint': desc, 'constraint_kind': desc[0],
                               'boolean_in_other_letter_case': bool(desc[0] in ('attr-ill-typed', 'text-ill-typed') and 'boolean' in desc[:3] and
                                                                    any(v in desc for v in ('TRUE', 'True', 'fAlse'))),
                               'exc': why.split(':')[1] if ':' in why else None}, {})
    return {
        'level': 'exploration',
        'coverage': {
            'evaluations': n, 'distinct_nontrivial': len(nontriv), 'exhaustive': True, 'classes': len(classes),
            'classes_whose_base_instance_validates': n_base_ok, 'constraint_violation_cases': n_constraints,
            'rule': 'for every schema class: the base instance (all declared attributes and children, type-appropriate values) must validate without raising anything that is not a validation error; then every declared constraint - required attribute missing / empty, child count min-1, child count max+1, attribute or text of a checked simple type (dateTime, boolean, integer kinds, duration) with each ill-typed value, enumeration with a foreign value - is violated in isolation at the root and nested under %s, and valid_instance() must raise; every violation also inside an element carrying xsi:nil; the two occurrence bounds the Conditions class declares in its verify() (at most one OneTimeUse, at most one ProxyRestriction: all 8 exceeding combinations of 0..2 x 0..3) judged absolutely at the root and at every depth; 6 further rules that classes declare in their own verify() (AuthnContext, Assertion, AttributeValue, SubjectLocality) judged differentially (refused at the root => refused at every depth); acceptance side: every other valid lexical form of the checked simple types (fractions of 1..12 digits, booleans 1/0, large and zero integers, duration forms); non-trivial counts distinct classes with at least one constraint' % ('every class that can contain it and, one level deeper, under every container of that class' if ctx.thorough else 'every class that can contain it'),
            'samples': [{'class': res[0][0][0], 'cases': res[0][0][1]}],
        },
        'assumptions': ['constraints = what the class tables declare (c_attributes required flag, c_cardinality, declared simple types); children without a c_cardinality entry have no declared bound',
                        'acceptance side is not demanded for trees containing a class-specific verify() override'],
    }


def replay(ctx, w):
    classes = {schema.cname(c): c for c in schema.discover()}
    cls = classes[w['class']]
    if w['constraint'][0] == 'valid-spelling':
        x = schema.base_instance(cls, 2)
        setattr(x, w['constraint'][1], w['constraint'][3])
        st, exc = validates(x)
        return {'violation': st != 'ok', 'observed': [st, exc]}
    if w['constraint'] == ['valid-instance']:
        st, exc = validates(schema.base_instance(cls, 2))
        return {'violation': st != 'ok', 'observed': [st, exc]}
    desc = [d for d in w['constraint'] if d != 'with-xsi-nil']
    nil = 'with-xsi-nil' in w['constraint']
    core = desc[:desc.index('under')] if 'under' in desc else desc
    for d, viol in constraints(cls) + class_rules(cls):
        if d == core:
            x = schema.base_instance(cls, 2)
            viol(x)
            if nil:
                x.extension_attributes[XSI_NIL] = 'true'
            if core[0] == 'class-bound' and 'under' not in desc:
                try:
                    x.verify()
                    return {'violation': True, 'observed': ['ok', None]}
                except Exception as e:
                    return {'violation': False, 'observed': ['rejected', type(e).__name__]}
            if 'under' in desc:
                pcls = classes[desc[desc.index('under') + 1]]
                for p, member, is_list in parents_of(cls):
                    if p is pcls:
                        px = schema.base_instance(p, 1)
                        setattr(px, member, [x] if is_list else x)
                        x = px
                        break
            st, exc = validates(x)
            return {'violation': st == 'ok', 'observed': [st, exc]}
    return {'violation': False}
