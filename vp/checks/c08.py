"""C08 - what the IdP asserts is what the SP reads, for any content (full round trip inside one world built from
mutually generated metadata)."""
import base64
import itertools
from html.parser import HTMLParser
from urllib.parse import urlsplit, parse_qsl

from vp import env, world, forge, oracle
from vp.world import (BINDING_HTTP_POST as POST, BINDING_HTTP_REDIRECT as REDIR, BINDING_SOAP as SOAP, SP_X, IDP_A, ACS_POST,
                      ACS_REDIRECT, ACS_SOAP)

TMP = [None]
_c = {}
ACS = {POST: ACS_POST, REDIR: ACS_REDIRECT, SOAP: ACS_SOAP}
NF = {'transient': 'urn:oasis:names:tc:SAML:2.0:nameid-format:transient', 'persistent': 'urn:oasis:names:tc:SAML:2.0:nameid-format:persistent',
      'email': 'urn:oasis:names:tc:SAML:1.1:nameid-format:emailAddress', 'unspecified': 'urn:oasis:names:tc:SAML:1.1:nameid-format:unspecified'}
VALUES = {
    'plain': 'Alice', 'lt': 'a<b', 'amp-entity': 'x&amp;y', 'quotes': 'q"\'q', 'cdata-end': 'a]]>b', 'comment': 'a<!--x-->b',
    'lookalike': 'v</saml:AttributeValue><saml:AttributeValue>w', 'lead-ws': '  lead', 'trail-ws': 'trail  ', 'inner-ws': 'in  ner\ttab',
    'backslash-d': 'EXAMPLE\\derek', 'win-path': 'C:\\new\\table\\readme.txt', 'double-backslash': 'a\\\\b', 'group-ref': 'x\\1y\\g<0>z',
    'dollar': '$1 ${x} \\$', 'percent': '100% %s %(x)s', 'braces': '{0} {x} }{',
    'bytes-ascii': b'Derek', 'bytes-utf8': 'J\u00e4ter \u20ac'.encode('utf-8'),
    'newline': 'line1\nline2', 'latin': 'é', 'euro': '€uro', 'astral': 'smile\U0001F600', 'long': 'L' * 4096, 'pi': '<?x y?>', 'entity-ref': '&lt;&#65;',
}
ALG = dict(forge.SIG_ALGS)
POLICIES = {
    'none': None,
    'default-5min': {'default': {'lifetime': {'minutes': 5}}},
    'default-1day': {'default': {'lifetime': {'days': 1}}},
    'per-sp-partial': {'default': {'lifetime': {'minutes': 5}, 'nameid_format': NF['persistent']}, SP_X: {'attribute_restrictions': None}},
    'per-sp-own': {'default': {'lifetime': {'minutes': 5}}, SP_X: {'lifetime': {'minutes': 2}}},
}
LIFETIME = {'none': 3600, 'default-5min': 300, 'default-1day': 86400, 'per-sp-partial': 300, 'per-sp-own': 120}


SPOPTS = {
    None: {},
    # the fork's destination pattern option (search semantics), not anchored at the start of the URL
    'dest-regex-mid': {'valid_destination_regex': r'spx\.example/acs/[a-z]+$'},
    # consumer endpoints spelled as bare locations (documented spelling; the metadata binds them to HTTP-POST) on an
    # SP whose binding preferences for that service start with another binding
    'bare-acs': {'acs': [ACS_POST], 'top': {'preferred_binding': {'assertion_consumer_service': [REDIR, POST]}}},
    # the other spellings of an endpoint the metadata generator understands: (location, binding, index) and a dict
    # a non-zero clock-skew allowance: it widens what is accepted, it is not added to what the application reads
    'slack-180': {'top': {'accepted_time_diff': 180}},
    'acs-3tuples': {'acs': [(ACS_POST, POST, 0), (ACS_REDIRECT, REDIR, 1), (ACS_SOAP, SOAP, 2)]},
    'acs-dicts': {'acs': [{'location': ACS_POST, 'binding': POST, 'index': 0}, {'location': ACS_REDIRECT, 'binding': REDIR, 'index': 1},
                          {'location': ACS_SOAP, 'binding': SOAP, 'index': 2}]},
    'acs-dicts-no-index': {'acs': [{'location': ACS_POST, 'binding': POST}, {'location': ACS_REDIRECT, 'binding': REDIR}]},
}


def world_for(policy, wants, spopt=None):
    """(idp, sp) configured from each other's *generated* metadata."""
    k = (policy, wants, spopt)
    if k in _c:
        return _c[k]
    from saml2_tophat.config import SPConfig, IdPConfig
    extra = SPOPTS[spopt]
    spc = SPConfig()
    spc.load(world.sp_config(TMP[0], [], want_response_signed=wants[0], want_assertions_signed=wants[1],
                             want_assertions_or_response_signed=wants[2], **extra))
    idc = IdPConfig()
    idc.load(world.idp_config(TMP[0], [], policy=POLICIES[policy]))
    sp_md = world.generated_metadata(spc)
    idp_md = world.generated_metadata(idc)
    sp = world.make_sp(TMP[0], [idp_md], want_response_signed=wants[0], want_assertions_signed=wants[1],
                       want_assertions_or_response_signed=wants[2], **extra)
    idp = world.make_idp(TMP[0], [sp_md], policy=POLICIES[policy])
    _c['sp_md'] = sp_md
    _c[k] = (idp, sp)
    if len(_c) > 13:
        _c.pop(next(k2 for k2 in _c if k2 != 'sp_md'))
    return _c[k]


class _Form(HTMLParser):
    def __init__(self):
        HTMLParser.__init__(self, convert_charrefs=True)
        self.vals = {}

    def handle_starttag(self, tag, attrs):
        d = dict(attrs)
        if tag == 'input' and d.get('name'):
            self.vals[d['name']] = d.get('value')

    handle_startendtag = handle_starttag


def transport(info, binding):
    """Independent transport decoder: what the receiving end gets as SAMLResponse parameter / body."""
    if binding == POST:
        f = _Form()
        f.feed(info['data'])
        return f.vals['SAMLResponse'], f.vals.get('RelayState')
    if binding == REDIR:
        q = dict(parse_qsl(urlsplit(dict(info['headers'])['Location']).query, keep_blank_values=True))
        return q['SAMLResponse'], q.get('RelayState')
    return info['data'], None


def cells(thorough):
    out = []
    base = dict(values=('plain',), count=1, nf='transient', authority=False, policy='default-5min', snooa=None, binding=POST,
                sr=True, sa=False, enc=False, adv=False, alg=None, dalg=None, wants=(True, False, False), extra_attr=False)
    # A. protection x binding x algorithms
    algs = [(None, None)] + [(a, a) for a in ALG] + [('sha1', 'sha256'), ('sha512', 'sha1'), ('sha256', None), (None, 'sha384')]
    for sr, sa, enc, adv, binding in itertools.product((False, True), (False, True), (False, True), (False, True), (POST, REDIR, SOAP)):
        if adv and not enc and not thorough:
            continue
        for alg, dalg in (algs if (thorough or binding == POST) else algs[:2]):
            if (alg or dalg) and not (sr or sa):
                continue
            # SP requirement settings satisfied by this signing choice
            ws = [(False, False, False)]
            if sr:
                ws.append((True, False, False))
            if sa:
                ws.append((False, True, False))
            if sr or sa:
                ws.append((False, False, True))
            if sr and sa:
                ws.append((True, True, True))
            for w in (ws if thorough or (alg is None) else ws[-1:]):
                out.append(dict(base, sr=sr, sa=sa, enc=enc, adv=adv, binding=binding, alg=alg, dalg=dalg, wants=w))
    # B. identity content
    for vname, count, nf, (sr, sa, enc) in itertools.product(VALUES, (1, 2, 5), NF, ((True, False, False), (False, True, True))):
        if not thorough and count == 5 and vname not in ('plain', 'lookalike', 'newline'):
            continue
        if not thorough and nf not in ('transient', 'email') and vname not in ('plain', 'lt'):
            continue
        vals = tuple([vname] + ['plain', 'latin', 'lt', 'inner-ws'][:count - 1])
        for binding in (POST, REDIR, SOAP):
            if binding != POST and not thorough and (count != 1 or nf != 'transient'):
                continue
            out.append(dict(base, values=vals, count=count, nf=nf, sr=sr, sa=sa, enc=enc, wants=(sr, sa, False), extra_attr=True,
                            binding=binding))
    out.append(dict(base, values=(), count=0))
    # non-initial state of the IdP: it has just verified a signed AuthnRequest of the SP (a look-up of the SP's
    # signing certificate) before it encrypts for the SP
    for (sr, sa, enc), binding in itertools.product(((True, False, True), (False, True, True), (True, True, True), (False, False, True), (True, False, False)), (POST, REDIR)):
        out.append(dict(base, sr=sr, sa=sa, enc=enc, wants=(False, False, False), binding=binding, after_signed_request=True))
    # A2. SP configuration variants: destination pattern option, bare-location endpoints with binding preferences
    for spopt, (sr, sa, enc), binding in itertools.product(('dest-regex-mid', 'bare-acs', 'acs-3tuples', 'acs-dicts', 'acs-dicts-no-index', 'slack-180'),
                                                           ((True, False, False), (False, True, True), (True, True, False)), (POST, REDIR)):
        if spopt == 'bare-acs' and binding != POST:
            continue
        out.append(dict(base, spopt=spopt, sr=sr, sa=sa, enc=enc, wants=(sr, sa, False), binding=binding))
    # B2. special identities: values carried as a NameID child (eduPersonTargetedID), two identity keys that the
    #     name mapping sends to the same attribute (spellings differing in case)
    for special, (sr, sa, enc), binding in itertools.product(('eptid', 'alias-case', 'eptid+alias-case', 'eidas'), ((True, False, False), (False, True, True), (True, True, False)),
                                                             (POST, REDIR, SOAP) if thorough else (POST,)):
        if binding == SOAP and sr and enc:
            continue
        out.append(dict(base, special=special, sr=sr, sa=sa, enc=enc, wants=(sr, sa, False), binding=binding))
    # C. lifetime / policy / session expiry / authn context
    for pol, snooa, auth in itertools.product(POLICIES, (None, 900), (False, True)):
        out.append(dict(base, policy=pol, snooa=snooa, authority=auth))
    # D. the subject identifier chosen by the IdP itself (userid + NameIDPolicy) on one long-lived Server: every
    #    sequence of logins of two users with two formats up to length 3 (4 in the thorough tier)
    ops = [(u, f) for u in ('alice', 'bob') for f in ('persistent', 'transient')]
    for n in range(1, (4 if thorough else 3) + 1):
        for seq in itertools.product(ops, repeat=n):
            out.append(dict(base, logins=[list(o) for o in seq], sr=False, wants=(False, False, False)))
    # ... and with requests whose NameIDPolicy leaves the format open ('open'): the IdP's configured format applies
    # (persistent in this policy), and it is the same identifier an explicit request for that format gets
    ops = [(u, f) for u in ('alice', 'bob') for f in ('open', 'persistent', 'transient')]
    for n in range(1, (4 if thorough else 3) + 1):
        for seq in itertools.product(ops, repeat=n):
            if not any(f == 'open' for _u, f in seq):
                continue
            out.append(dict(base, logins=[list(o) for o in seq], sr=False, wants=(False, False, False), policy='per-sp-partial'))
    return out


def evaluate_logins(c):
    """Section D: logins on one fresh Server; the SP must read an identifier of the requested format that the IdP maps
    back to the user, and a persistent one must stay the same."""
    from saml2_tophat import samlp
    env.Clock.set(env.BASE)
    env.reset_rng()
    _idp, sp = world_for(c['policy'], tuple(c['wants']))
    idp = world.make_idp(TMP[0], [_c['sp_md']], policy=POLICIES[c['policy']])
    persistent = {}
    for step, (user, fmt) in enumerate(c['logins']):
        rid = 'req%d' % (step + 1)
        try:
            resp = idp.create_authn_response({'givenName': [user]}, rid, ACS[POST], SP_X, userid=user,
                                             name_id_policy=(samlp.NameIDPolicy(format=NF[fmt], allow_create='true') if fmt != 'open'
                                                             else samlp.NameIDPolicy(allow_create='true')),
                                             authn={'class_ref': forge.PASSWORD}, sign_response=False, sign_assertion=False)
            info = idp.apply_binding(POST, str(resp), ACS[POST], 'relay-1', response=True)
            msg, _rs = transport(info, POST)
        except Exception as e:
            return {'ok': False, 'why': 'idp-could-not-build-response:%s:%s' % (type(e).__name__, str(e)[:80]), 'step': step}
        obs = oracle.accept_response(sp, msg, binding=POST, outstanding={rid: '/home'}, encoded=True)
        if not obs['accept']:
            return {'ok': False, 'why': 'sp-rejected-conforming-response:%s' % obs.get('exc'), 'step': step}
        text, f = obs['identity']['name_id'][0], obs['identity']['name_id'][1]
        if fmt == 'open':
            fmt = 'persistent'          # what the policy of this world configures
        if f != NF[fmt]:
            return {'ok': False, 'why': 'name-id-format-differs-from-requested:%s' % f.rsplit(':', 1)[-1], 'step': step}
        from saml2_tophat import saml
        try:
            back = idp.ident.find_local_id(saml.NameID(text=text, format=f, name_qualifier=obs['identity']['name_id'][2], sp_name_qualifier=obs['identity']['name_id'][3]))
        except Exception as e:
            back = 'exc:%s' % type(e).__name__
        if back != user:
            return {'ok': False, 'why': 'name-id-does-not-belong-to-the-asserted-user:%s' % back, 'step': step}
        if fmt == 'persistent':
            if persistent.setdefault(user, text) != text:
                return {'ok': False, 'why': 'persistent-name-id-changed', 'step': step}
        if obs['identity']['ava'].get('givenName') != [user]:
            return {'ok': False, 'why': 'attributes-differ', 'step': step}
    return {'ok': True, 'why': None}


def evaluate(c):
    if c.get('logins'):
        return evaluate_logins(c)
    from saml2_tophat import saml
    env.Clock.set(env.BASE)
    env.reset_rng()
    try:
        idp, sp = world_for(c['policy'], tuple(c['wants']), c.get('spopt'))
    except Exception as e:
        return {'ok': False, 'why': 'world-construction-failed:%s' % type(e).__name__}
    vals = [VALUES[v] for v in c['values']]
    identity = {'givenName': list(vals)} if vals else {}
    if c['extra_attr']:
        identity['mail'] = ['alice@example.org', VALUES[c['values'][0]]]
        identity['customAttr'] = [VALUES[c['values'][0]]]
    expect_override = {}
    sp_ = c.get('special') or ''
    if 'eptid' in sp_:
        identity['eduPersonTargetedID'] = ['tid-one', 'tid-two']
    if 'eidas' in sp_:
        # attributes whose wire name (a URI) has upper-case letters
        identity['PersonIdentifier'] = ['ES/AT/02635542Y']
        identity['FamilyName'] = ['Garc\u00eda']
    if 'alias-case' in sp_:
        identity['sn'] = ['Smith']
        identity['SN'] = ['Smythe']
        expect_override = {'sn': ['Smith', 'Smythe'], 'SN': None}
    subj = {'transient': 'tr-subject-1', 'persistent': 'pers-subject-<&>', 'email': 'alice@example.org', 'unspecified': 'un spec é'}[c['nf']]
    nid = saml.NameID(text=subj, format=NF[c['nf']])
    authn = {'class_ref': forge.PASSWORD}
    if c['authority']:
        authn['authn_auth'] = 'https://authority.example/a'
    kw = dict(sign_response=c['sr'], sign_assertion=c['sa'], encrypt_assertion=c['enc'])
    if c['adv']:
        kw['encrypted_advice_attributes'] = True
    if c['alg']:
        kw['sign_alg'] = ALG[c['alg']][0]
    if c['dalg']:
        kw['digest_alg'] = ALG[c['dalg']][1]
    if c['snooa']:
        from saml2_tophat import time_util
        kw['session_not_on_or_after'] = forge.ts(env.BASE + c['snooa'])
    b = c['binding']
    if c.get('after_signed_request'):
        try:
            _rid, req = sp.create_authn_request(world.SSO_A + '/post', binding=POST, sign=True)
            import base64 as _b64
            idp.parse_authn_request(_b64.b64encode(str(req).encode('utf-8')).decode(), POST)
        except Exception as e:
            return {'ok': False, 'why': 'idp-refused-signed-request-of-the-sp:%s' % type(e).__name__}
    try:
        resp = idp.create_authn_response(identity, 'req1', ACS[b], SP_X, name_id=nid, authn=authn, **kw)
    except Exception as e:
        return {'ok': False, 'why': 'idp-could-not-build-response:%s:%s' % (type(e).__name__, str(e)[:80])}
    text = str(resp)
    # structure: values are data
    try:
        from vp import xmlsec
        if not c['enc']:
            d = xmlsec.parse_doc(text)
            n_av = sum(1 for e in xmlsec.dfs(d.documentElement) if e.localName == 'AttributeValue')
            want = sum(len(v) for v in identity.values())
            if n_av != want:
                return {'ok': False, 'why': 'attribute-value-changed-message-structure:%d!=%d' % (n_av, want)}
    except Exception as e:
        return {'ok': False, 'why': 'emitted-message-not-well-formed:%s' % type(e).__name__}
    try:
        info = idp.apply_binding(b, text, ACS[b], 'relay-1', response=True)
        msg, rs = transport(info, b)
    except Exception as e:
        return {'ok': False, 'why': 'binding-failed:%s' % type(e).__name__}
    obs = oracle.accept_response(sp, msg, binding=b, outstanding={'req1': '/home'}, encoded=True)
    if not obs['accept']:
        return {'ok': False, 'why': 'sp-rejected-conforming-response:%s:%s' % (obs.get('exc'), obs.get('msg', '')[:60])}
    idn = obs['identity']
    bad = []
    if idn['name_id'][0] != subj or idn['name_id'][1] != NF[c['nf']]:
        bad.append('name-id-differs')
    want_ava = {k: sorted((x.decode('utf-8') if isinstance(x, bytes) else x).strip() for x in v) for k, v in identity.items()}
    for k, v in expect_override.items():
        if v is None:
            want_ava.pop(k, None)
        else:
            want_ava[k] = sorted(v)
    got_ava = {k: sorted(v) for k, v in idn['ava'].items()}
    if got_ava != want_ava:
        bad.append('attributes-differ')
    if idn['in_response_to'] != 'req1' or (b != SOAP and idn['came_from'] != '/home'):
        bad.append('in-response-to-differs')      # (the synchronous SOAP binding has no outstanding-request bookkeeping)
    if idn['issuer'] != IDP_A:
        bad.append('issuer-differs')
    ctxs = [a[0] for a in idn['authn_info']]
    if ctxs != [forge.PASSWORD]:
        bad.append('authn-context-differs')
    if c['authority'] and idn['authn_info'][0][1] != ['https://authority.example/a']:
        bad.append('authenticating-authority-differs')
    exp = env.BASE + (c['snooa'] if c['snooa'] else LIFETIME[c['policy']])
    if idn['not_on_or_after'] != exp:
        bad.append('session-expiry-differs:%s' % (idn['not_on_or_after'] - env.BASE))
    if bad:
        return {'ok': False, 'why': ';'.join(bad), 'got_ava': got_ava if 'attributes-differ' in bad else None}
    return {'ok': True, 'why': None}


def run(ctx):
    TMP[0] = ctx.tmp
    cs = cells(ctx.thorough)
    # group by world to keep construction cost down
    cs.sort(key=lambda c: (c['policy'], tuple(c['wants'])))
    res = ctx.pmap(evaluate, cs, chunksize=8)
    ctx.recheck(evaluate, cs, res, n=12)
    ok = 0
    nontriv = set()
    for c, r in zip(cs, res):
        ok += r['ok']
        if c['sr'] or c['sa'] or c['enc'] or c['values'] != ('plain',) or c.get('logins'):
            nontriv.add(repr(sorted(c.items())))
        if not r['ok']:
            key = {k: (list(v) if isinstance(v, tuple) else v) for k, v in c.items()}
            key['binding'] = c['binding'].rsplit(':', 1)[1]
            key['kind'] = r['why'].split(':')[0].split(';')[0]
            ctx.violation(key, {'why': r['why'], 'got_ava': r.get('got_ava')})
    if not ok:
        ctx.violation({'kind': 'nothing-accepted'}, {})
    return {
        'level': 'exploration',
        'coverage': {
            'evaluations': len(cs), 'distinct_nontrivial': len(nontriv), 'exhaustive': True, 'accepted_and_equal': ok,
            'rule': 'three complete sub-products through create_authn_response -> apply_binding -> independent transport decoder -> parse_authn_request_response inside a world built from mutually generated metadata: (A) sign_response x sign_assertion x encrypt_assertion x encrypted_advice_attributes x binding (POST/Redirect/SOAP) x signature/digest algorithm settings (default, 5 diagonal, 4 mixed) x every SP want_* setting the signing choice satisfies; (B) %d hostile attribute values x value count (1,2,5) x NameID format x {signed response, signed+encrypted assertion} x binding; identities with eduPersonTargetedID (values carried as NameID children) and with two keys that the name mapping sends to one attribute; (D) every sequence of up to 3 (thorough: 4) logins of two users with persistent / transient NameIDPolicy on one Server (identifier built by the IdP from userid): format as requested, identifier maps back to the user, persistent identifier stable; (C) release-policy lifetime shapes (none, default, per-SP entry with and without own lifetime) x session_not_on_or_after x authenticating authority.  Acceptance is REQUIRED and every field the application reads must equal what was asked (attribute values after .strip())' % len(VALUES),
            'samples': [{'case': {k: str(v) for k, v in cs[len(cs) // 2].items()}, 'result': res[len(cs) // 2]}],
        },
        'assumptions': ['values outside the XML Char production, lone surrogates and bare CR are not generated (XML cannot carry them unchanged)', 'xmlsec1 model at the seam'],
    }


def replay(ctx, w):
    TMP[0] = ctx.tmp
    c = dict(w)
    c.pop('kind', None)
    c['binding'] = {'HTTP-POST': POST, 'HTTP-Redirect': REDIR, 'SOAP': SOAP}[c['binding']]
    c['values'] = tuple(c['values'])
    c['wants'] = tuple(c['wants'])
    r = evaluate(c)
    return {'violation': not r['ok'], 'observed': r}
