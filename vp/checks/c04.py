"""C04 - assertions are honoured only inside their validity windows (product grid under the virtual clock)."""
import itertools

from vp import env, world, forge, oracle

TMP = [None]
_sp = {}
DAY = 86400
BOUNDS = ('C_NB', 'C_NOOA', 'SCD_NOOA', 'SCD_NB', 'SESS')
ADVICE_MARK = 'ADVICE-ATTRIBUTE-VALUE'
KIND = {'ADV_NB': 'NB', 'ADV_NOOA': 'NOOA', 'C_NB': 'NB', 'SCD_NB': 'NB', 'C_NOOA': 'NOOA', 'SCD_NOOA': 'NOOA', 'SESS': 'NOOA', 'SCD2_NOOA': 'NOOA', 'SCD2_NB': 'NB',
        'SESS2': 'NOOA', 'SESS3': 'NOOA'}
BASE_OFF = {'C_NB': -60, 'C_NOOA': 300, 'SCD_NOOA': 400, 'SCD_NB': -50, 'SESS': 500}


def sp_for(slack, soap=False):
    k = (slack, soap)
    if k not in _sp:
        top = {} if slack is None else {'accepted_time_diff': slack}
        # over SOAP the documents are unsigned (the SOAP reader re-serialises the body)
        _sp[k] = world.make_sp(TMP[0], top=top, **({'want_response_signed': False} if soap else {}))
    return _sp[k]


def shapes(thorough):
    out = []
    for n in range(len(BOUNDS) + 1):
        for sub in itertools.combinations(BOUNDS, n):
            out.append(('subset:' + '+'.join(sub), {b: BASE_OFF[b] for b in sub}))
    # session expiry earlier than the conditions expiry (the application must get the session value)
    out.append(('sess-early', {'C_NB': -60, 'C_NOOA': 300, 'SCD_NOOA': 400, 'SESS': 200}))
    out.append(('sess-early-min', {'C_NOOA': 300, 'SCD_NOOA': 400, 'SESS': 200}))
    # wide bounds to isolate the IssueInstant window
    w = 3 * DAY
    out.append(('wide-all', {'C_NB': -w, 'C_NOOA': w, 'SCD_NOOA': w, 'SCD_NB': -w, 'SESS': w}))
    out.append(('wide-profile', {'C_NOOA': w, 'SCD_NOOA': w}))
    out.append(('wide-scd-only', {'SCD_NOOA': w}))
    # inversions (only observable through the allowance)
    # Conditions carrying only the time attributes (no AudienceRestriction or other child element)
    for sub in (('C_NOOA',), ('C_NB',), ('C_NB', 'C_NOOA'), ('C_NB', 'C_NOOA', 'SCD_NOOA'), ('C_NOOA', 'SCD_NOOA', 'SESS')):
        d = {b: BASE_OFF[b] for b in sub}
        d['_noaud'] = True
        out.append(('no-audience:' + '+'.join(sub), d))
    # two bearer confirmations: a second one with its own window (SCD2_*), in both orders
    out.append(('two-scd:usable+expiring-earlier', {'SCD_NOOA': 400, 'SCD2_NOOA': 200, 'C_NOOA': 600}))
    out.append(('two-scd:expiring-earlier+usable', {'SCD_NOOA': 400, 'SCD2_NOOA': 200, 'C_NOOA': 600, '_scd2_first': True}))
    out.append(('two-scd:usable+not-yet', {'SCD_NOOA': 400, 'SCD2_NOOA': 400, 'SCD2_NB': 100, 'C_NOOA': 600}))
    # several AuthnStatements: a session bound on a later statement counts as well
    out.append(('two-authn:second-expiring-earlier', {'C_NOOA': 600, 'SCD_NOOA': 600, 'SESS': 500, 'SESS2': 200}))
    out.append(('two-authn:only-second-bounded', {'C_NOOA': 600, 'SCD_NOOA': 600, 'SESS2': 200}))
    out.append(('three-authn:third-expiring-earlier', {'C_NOOA': 600, 'SCD_NOOA': 600, 'SESS': 500, 'SESS2': 400, 'SESS3': 200}))
    # an assertion inside the accepted assertion's Advice with its own window: outside it, its attributes are not honoured
    out.append(('advice:expiring-earlier', {'C_NOOA': 600, 'SCD_NOOA': 600, 'ADV_NOOA': 200}))
    out.append(('advice:not-yet-valid', {'C_NOOA': 600, 'SCD_NOOA': 600, 'ADV_NB': 100, 'ADV_NOOA': 600}))
    out.append(('advice:long-expired', {'C_NOOA': 600, 'SCD_NOOA': 600, 'ADV_NB': -3 * DAY, 'ADV_NOOA': -2 * DAY}))
    # OneTimeUse next to the time bounds: the expiry handed to the application is still the Conditions NotOnOrAfter
    out.append(('one-time-use', {'C_NB': -60, 'C_NOOA': 300, 'SCD_NOOA': 400, '_onetimeuse': True}))
    # a plain assertion with the bounds of the shape next to a perfectly valid encrypted one
    out.append(('mixed:plain+encrypted-valid', {'C_NB': -60, 'C_NOOA': 300, 'SCD_NOOA': 400, 'SESS': 500, '_mixed': True}))
    # the allowance is lowered on the live client's configuration after construction (judged with allowance 0)
    out.append(('allowance-lowered-afterwards', {'C_NB': -60, 'C_NOOA': 300, 'SCD_NOOA': 400, '_lowered': True}))
    out.append(('inv-conditions', {'C_NB': 10, 'C_NOOA': 0, 'SCD_NOOA': 400}))
    out.append(('inv-scd', {'SCD_NB': 10, 'SCD_NOOA': 0, 'C_NOOA': 400}))
    return out


SPELLINGS_Q = ('Z', '.999Z', '+01:00', '-03:30')
SPELLINGS_T = ('Z', '.000Z', '.999Z', 'none', '+00:00', '+01:00', '-03:30', '+05:30', '-00:30', '+13:00')
FRAC = {'Z': 0.0, '.000Z': 0.0, '.999Z': 0.999, 'none': 0.0, '+00:00': 0.0, '+01:00': 0.0, '-03:30': 0.0, '+05:30': 0.0, '-00:30': 0.0,
        '+13:00': 0.0}
# process time zones (POSIX TZ strings; the sign is inverted: VPA-5 is UTC+5): SAML instants are UTC whatever the zone
ZONES_Q = ('UTC', 'VPA-5', 'VPB5')
ZONES_T = ('UTC', 'VPA-5', 'VPB5', 'VPC-5:30', 'VPD3:30VPE,M3.2.0,M11.1.0')
Z_LIKE = ('Z', '.000Z', '.999Z')


def build_doc(shape, style, soap=False):
    T0 = env.BASE
    conf = [forge.confirmation(T0, nooa=shape.get('SCD_NOOA'), nb=shape.get('SCD_NB'), style=style)]
    if 'SCD2_NOOA' in shape or 'SCD2_NB' in shape:
        c2 = forge.confirmation(T0, nooa=shape.get('SCD2_NOOA'), nb=shape.get('SCD2_NB'), style=style)
        conf = [c2] + conf if shape.get('_scd2_first') else conf + [c2]
    a = dict(confirmations=conf, cond=True, cond_nb=shape.get('C_NB'), cond_nooa=shape.get('C_NOOA'),
             session_nooa=shape.get('SESS'), style=style)
    if 'ADV_NOOA' in shape or 'ADV_NB' in shape:
        a['advice'] = forge.assertion(T0, aid='ADV1', cond=True, cond_nb=shape.get('ADV_NB'), cond_nooa=shape.get('ADV_NOOA'), authn=False,
                                      attrs=(('role', (ADVICE_MARK,)),), style=style)
    if 'SESS2' in shape:
        a['more_authn'] = [shape['SESS2']] + ([shape['SESS3']] if 'SESS3' in shape else [])
    if shape.get('_noaud'):
        a['audiences'] = ()
    if shape.get('_onetimeuse'):
        a['cond_extra'] = '<saml:OneTimeUse/>'
    if shape.get('_mixed') and not soap:
        x = forge.response(T0, [forge.assertion(T0, aid='A1', **a), forge.assertion(T0, aid='A2', subject='second')], style=style)
        x = forge.encrypt_assertions(x, 'spXenc1', which=['A2'])
        return forge.sign(x.replace('<saml:Issuer>%s</saml:Issuer>' % world.IDP_A, '<saml:Issuer>%s</saml:Issuer>%s' % (world.IDP_A, forge.sig_template('R1')), 1), 'R1', 'idpA')
    if soap:
        a['confirmations'] = [c.replace(world.ACS_POST, world.ACS_SOAP) for c in conf]
        return forge.build(T0, resp=dict(style=style, dest=world.ACS_SOAP), assertions=[a])
    return forge.build(T0, resp=dict(style=style), assertions=[a], sign_resp='idpA')


def instants(shape, thorough):
    """Offsets of `now` (relative to T0) to test for this shape, per slack value s (function of s)."""
    def f(s):
        pts = set()
        for b, off in shape.items():
            if b.startswith('_'):
                continue
            edge = off + s if KIND[b] == 'NOOA' else off - s
            for o in (-2, -1, 0, 1, 2):
                pts.add(edge + o)
            if thorough:
                for o in (-3600, 3600):
                    pts.add(edge + o)
        for o in (-2, -1, 0, 1, 2):
            pts.add(DAY + s + o)
            pts.add(-DAY - s + o)
        pts.update((0, 5, -400 * DAY, 400 * DAY))
        return sorted(pts)
    return f


def cells(thorough):
    slacks = (None, 0, 1, 60) if not thorough else (None, 0, 1, 60, 3600, 86400)
    spell = SPELLINGS_Q if not thorough else SPELLINGS_T
    out = []
    for si, (name, shape) in enumerate(shapes(thorough)):
        f = instants(shape, thorough)
        for style in spell:
            rich = name.startswith('subset:') and name.count('+') in (1, 4) or name.startswith('wide') or name == 'sess-early' or name.startswith('two-')
            if not thorough and style != 'Z' and not rich:
                continue
            for s in slacks:
                for tz in (ZONES_Q if not thorough else ZONES_T):
                    # every spelling in every process zone (round 6: a fractional-seconds branch that parsed in local time was
                    # missed while the zones were crossed with the `Z` spelling only)
                    if tz != 'UTC' and not (rich and (style == 'Z' and s in (None, 60) or s == 0) or thorough):
                        continue
                    out.append((si, name, style, s, f(s or 0), tz))
                    # the same windows when the response arrives over the synchronous binding
                    if tz == 'UTC' and style == 'Z' and s in (None, 60) and (rich or thorough):
                        out.append((si, name, style, s, f(s or 0), 'UTC/soap'))
    return out


def judge(shape, style, slack, dt):
    """(reject_required, accept_required, expected_session_expiry or None) for now = T0 + dt."""
    s = slack or 0
    rej = False
    spare = True
    for b, off in shape.items():
        if b.startswith('_') or b.startswith('ADV_'):
            continue
        v = off + FRAC[style]
        if KIND[b] == 'NOOA':
            if dt - s > v + 1:
                rej = True
            if not (dt + s + 1 < off):
                spare = False
        else:
            if dt + s < v - 1:
                rej = True
            if not (dt - s - 1 > v):
                spare = False
    for nb, nooa in (('C_NB', 'C_NOOA'), ('SCD_NB', 'SCD_NOOA')):
        if nb in shape and nooa in shape and shape[nb] > shape[nooa] + 1:
            rej = True
            spare = False
    ii = FRAC[style]
    if abs(dt - ii) > DAY + s + 1:
        rej = True
    if not (abs(dt) + s + 1 < DAY):
        spare = False
    profile = (not shape.get('_mixed') and 'ADV_NOOA' not in shape and 'ADV_NB' not in shape and style in Z_LIKE and 'SCD_NOOA' in shape and 'SCD_NB' not in shape and 'SCD2_NB' not in shape and not shape.get('_noaud')
               and 'SESS2' not in shape)
    acc = profile and spare and not rej
    exp = None
    if 'SESS2' in shape:
        exp = None          # which statement's bound reaches the application is not specified
    elif 'SESS' in shape:
        exp = env.BASE + shape['SESS']
    elif 'C_NOOA' in shape:
        exp = env.BASE + shape['C_NOOA']
    return rej, acc, exp


DOCS = {}


def evaluate(cell):
    import os, time
    os.environ['TZ'] = cell[5].split('/')[0]
    time.tzset()
    try:
        return evaluate_in_zone(cell)
    finally:
        os.environ['TZ'] = 'UTC'
        time.tzset()


def evaluate_in_zone(cell):
    si, name, style, slack, dts, _tz = cell
    soap = _tz.endswith('/soap')
    shape = SHAPES[si][1]
    k = (si, style, soap)
    if k not in DOCS:
        env.Clock.set(env.BASE)
        DOCS[k] = build_doc(shape, style, soap)
    xml = DOCS[k]
    sp = sp_for(slack, soap)
    if shape.get('_lowered'):
        # a private client built with a generous allowance that is then lowered to `slack` on its live configuration
        sp = world.make_sp(TMP[0], top={'accepted_time_diff': 3600}, **({'want_response_signed': False} if soap else {}))
        sp.config.accepted_time_diff = slack or 0
    out = []
    for dt in dts:
        env.Clock.set(env.BASE + dt)
        obs = oracle.accept_response(sp, xml, binding=world.BINDING_SOAP) if soap else oracle.accept_response(sp, xml)
        rej, acc, exp = judge(shape, style, slack, dt)
        bad = None
        if obs['accept'] and rej:
            bad = 'accepted-outside-validity-window'
        elif not obs['accept'] and acc:
            bad = 'rejected-although-every-bound-has-room:%s' % obs.get('exc')
        elif obs['accept'] and exp is not None and obs['identity']['not_on_or_after'] != exp:
            bad = 'session-expiry-handed-to-application-is-wrong'
        elif obs['accept'] and ADVICE_MARK in repr(obs['identity'].get('ava')):
            s_ = slack or 0
            if ('ADV_NOOA' in shape and dt - s_ > shape['ADV_NOOA'] + 1) or ('ADV_NB' in shape and dt + s_ < shape['ADV_NB'] - 1):
                bad = 'attributes-of-an-advice-assertion-honoured-outside-its-validity-window'
        out.append((dt, obs['accept'], obs.get('exc'), rej, acc, bad))
    env.Clock.set(env.BASE)
    return out


SHAPES = []


def run(ctx):
    TMP[0] = ctx.tmp
    SHAPES[:] = shapes(ctx.thorough)
    cs = cells(ctx.thorough)
    res = ctx.pmap(evaluate, cs, chunksize=2)
    ctx.recheck(evaluate, cs, res, n=12)
    n = 0
    nontriv = set()
    hist = {}
    n_acc = 0
    n_must_acc = 0
    n_must_rej = 0
    for (si, name, style, slack, dts, tz), outs in zip(cs, res):
        for dt, accept, exc, rej, acc, bad in outs:
            n += 1
            k = 'ACCEPT' if accept else 'REJECT:%s' % exc
            hist[k] = hist.get(k, 0) + 1
            n_acc += accept
            n_must_acc += acc
            n_must_rej += rej
            if rej or acc:
                nontriv.add((si, style, slack, dt, tz))
            if bad:
                shape = SHAPES[si][1]
                near = None
                for b, off in shape.items():
                    if b.startswith('_'):
                        continue
                    e = off + (slack or 0) * (1 if KIND[b] == 'NOOA' else -1)
                    if abs(dt - e) <= 3600:
                        near = b
                ctx.violation({'kind': bad.split(':')[0], 'shape': name, 'style': style, 'slack': slack, 'dt': dt,
                               'near_edge': near, 'tz': tz}, {'exc': exc, 'shape_offsets': shape})
    if n_must_acc and not n_acc:
        ctx.violation({'kind': 'nothing-accepted'}, {})
    i0 = len(cs) // 2
    return {
        'level': 'exploration',
        'coverage': {
            'evaluations': n, 'distinct_nontrivial': len(nontriv), 'exhaustive': True,
            'rule': 'complete grid: %d document shapes (every subset of the five optional bounds; Conditions without any child element; two bearer confirmations with different windows in both orders; session-earlier-than-conditions; two and three AuthnStatements with the earliest session bound on a later one; OneTimeUse next to the bounds; a plain assertion next to a valid encrypted one; the allowance lowered on the live configuration after construction; an Advice assertion with its own window (its attributes must not reach the application outside it); wide bounds isolating IssueInstant; NotBefore>NotOnOrAfter inversions) x timestamp spellings (Z, fractions, no designator, numeric zones incl. half-hour and negative offsets) x allowance values x process time zone (UTC, UTC+5, UTC-5; thorough also +5:30 and a DST zone; every spelling is crossed with every zone - quick: on the rich shapes with allowance 0, thorough: the complete product) x delivery (signed over HTTP-POST; unsigned over SOAP, where the handler runs with asynchop off) x placements of now (-2..+2 s around every edge shifted by the allowance, around +-1 day of IssueInstant, far values); non-trivial = cells where the oracle demands a verdict (reject-required or accept-required, 1 s dead zone around each edge)' % len(SHAPES),
            'samples': [{'cell': list(cs[i0][:4]) + [cs[i0][5]], 'instants': cs[i0][4][:6], 'outcomes': [list(o) for o in res[i0][:3]]}],
            'accepted': n_acc, 'accept_required_cells': n_must_acc, 'reject_required_cells': n_must_rej,
            'distinct_outcomes': len(hist), 'outcome_histogram': hist,
        },
        'assumptions': ['integer-second clock in the library: +-1 s dead zone around every edge; instants equal to a bound unspecified',
                        'acceptance side only for profile-conformant shapes and Z spellings', 'xmlsec1 model at the seam'],
    }


def replay(ctx, w):
    TMP[0] = ctx.tmp
    SHAPES[:] = shapes(True)
    si = [i for i, (n, _s) in enumerate(SHAPES) if n == w['shape']][0]
    out = evaluate((si, w['shape'], w['style'], w['slack'], [w['dt']], w.get('tz', 'UTC')))[0]
    return {'violation': bool(out[5]), 'observed': out}
