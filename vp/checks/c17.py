"""C17 - encrypted assertions stay confidential and are validated like plain ones.

(a) emit side: product table on Server.create_authn_response (leak scan + decryptability with the right key only);
(b) accept side: C01/C02/C04/C05-style mutations applied inside the ciphertext, every SP key layout, undecryptable
content; the verdict for the encrypted form must be REJECT whenever the plain form must be rejected."""
import base64
import os
import itertools
import re
from urllib.parse import unquote

from vp import env, world, forge, oracle, xmlsec
from vp.world import SP_X, ACS_POST, IDP_A
from vp.checks import c01

TMP = [None]
_c = {}
MARK = {'subject': 'SUBJ-MARK-4471', 'attr_name': 'markerAttrName8823', 'attr_value': 'ATTRVAL-MARK-1937', 'given': 'GIVEN-MARK-5520',
        'adv_value': 'ADVICE-MARK-7702'}
ALLKEYS = ('idpA', 'idpA2', 'idpAenc', 'idpB', 'spX', 'spXenc1', 'spXenc2', 'spY', 'mallory', 'mdsigner')


# ------------------------------------------------------------------ (a) emit

def _reject_cert(cert):
    return False


def idp_for(enc_layout, variant=None):
    k = ('idp', enc_layout) if variant is None else ('idp', enc_layout, variant)
    if variant is not None and k not in _c:
        base_layout = enc_layout
        keys = [('spX', 'signing')] + [(n, 'encryption') for n in {'one': ['spXenc1'], 'two': ['spXenc1', 'spXenc2'], 'none': []}[base_layout]]
        opts = {'cfg-encrypt': {'encrypt_assertion': True},
                'verifier-rejects': {'verify_encrypt_cert_advice': _reject_cert, 'verify_encrypt_cert_assertion': _reject_cert},
                'advice-verifier-rejects': {'verify_encrypt_cert_advice': _reject_cert}}[variant]
        if variant == 'verifier-rejects':
            _c[k] = world.make_idp(TMP[0], [world.sp_md(keys=tuple(keys))], **opts)
        else:
            _c[k] = world.make_idp(TMP[0], [world.sp_md(keys=tuple(keys))], **opts)
    if k not in _c:
        keys = [('spX', 'signing')] + [(n, 'encryption') for n in {'one': ['spXenc1'], 'two': ['spXenc1', 'spXenc2'], 'none': [], 'no-use': [], 'other-role': []}[enc_layout]]
        if enc_layout == 'no-use':
            # the SP publishes one key without a use attribute: good for signing and for encryption
            keys = [('spXenc1', None)]
        md = world.sp_md(keys=tuple(keys))
        if enc_layout == 'other-role':
            # a multi-role entity (proxy): the SP role descriptor carries a signing key only, the entity's encryption
            # key sits on its IdP role descriptor
            md = md.replace('</md:EntityDescriptor>', '<md:IDPSSODescriptor protocolSupportEnumeration="%s">%s'
                            '<md:SingleSignOnService Binding="%s" Location="https://spx.example/proxy/sso"/></md:IDPSSODescriptor>'
                            '</md:EntityDescriptor>' % (world.PROTO, world.key_descriptor('spXenc1', 'encryption'), world.BINDING_HTTP_REDIRECT))
        _c[k] = world.make_idp(TMP[0], [md])
    return _c[k]


def emit_cells(thorough):
    out = []
    for layout, sr, sa, enc, adv, selfc, percert in itertools.product(('one', 'two', 'none', 'no-use'), (False, True), (False, True), (False, True), (False, True),
                                                                     (True, False), (None, 'spXenc2', 'spY')):
        if not enc and not adv:
            continue
        if not thorough and (not selfc) and (adv or percert):
            continue
        out.append(dict(t='emit', layout=layout, sr=sr, sa=sa, enc=enc, adv=adv, selfc=selfc, percert=percert, seq=False))
    # PEFIM profile: the attributes travel in an advice assertion that is always encrypted; with encrypt_assertion the
    # main assertion (subject, conditions) must be encrypted as well
    for layout, sr, sa, enc, percert in itertools.product(('one', 'two', 'none'), (False, True), (False, True), (False, True), (None, 'spXenc2', 'spY')):
        out.append(dict(t='emit', layout=layout, sr=sr, sa=sa, enc=enc, adv=True, selfc=True, percert=percert, seq=False, pefim=True))
    # the encryption key published on another role descriptor of the SP's entity
    for sr, sa, adv, pefim in itertools.product((False, True), (False, True), (False, True), (False, True)):
        if pefim and not adv:
            continue
        out.append(dict(t='emit', layout='other-role', sr=sr, sa=sa, enc=True, adv=adv, selfc=True, percert=None, seq=False, pefim=pefim))
    # the attribute authority's entry point (AttributeQuery answers) takes the same encryption options
    for layout, sr, sa, selfc in itertools.product(('one', 'two', 'no-use', 'other-role'), (False, True), (False, True), (True,)):
        out.append(dict(t='emit', layout=layout, sr=sr, sa=sa, enc=True, adv=False, selfc=selfc, percert=None, seq=False, via='attribute-response'))
    # encryption switched on in the IdP's configuration, the caller says nothing about it
    for layout, sr, sa, pefim in itertools.product(('one', 'two'), (False, True), (False, True), (False, True)):
        out.append(dict(t='emit', layout=layout, sr=sr, sa=sa, enc=None, adv=False, selfc=True, percert=None, seq=False, pefim=pefim, variant='cfg-encrypt'))
    # a verifier for request-supplied certificates is configured and rejects the certificate: nothing is encrypted for it
    for layout, sr, adv, pefim in itertools.product(('one', 'none'), (False, True), (False, True), (False, True)):
        out.append(dict(t='emit', layout=layout, sr=sr, sa=True, enc=True, adv=adv, selfc=True, percert='spY', seq=False, pefim=pefim, variant='verifier-rejects'))
    for layout, sr, sa, adv in itertools.product(('one', 'none'), (False, True), (False, True), (False, True)):
        # only the advice part is encrypted (PEFIM), and only its verifier is configured
        out.append(dict(t='emit', layout=layout, sr=sr, sa=sa, enc=False, adv=adv, selfc=True, percert='spY', seq=False, pefim=True, variant='advice-verifier-rejects'))
    # sequences on one long-lived Server: metadata certificate first, then a per-request certificate (and reverse)
    for first, second in ((None, 'spXenc2'), ('spXenc2', None), ('spXenc2', 'spY'), (None, None)):
        out.append(dict(t='emit', layout='one', sr=True, sa=True, enc=True, adv=False, selfc=True, percert=second, seq=True, first=first))
    return out


def decodings(text):
    """The emitted text plus its base64-, percent- and entity-decoded readings (leak scan)."""
    outs = [text, unquote(text), text.replace('&lt;', '<').replace('&gt;', '>').replace('&amp;', '&').replace('&quot;', '"')]
    for m in re.finditer(r'>([A-Za-z0-9+/=\s]{40,})<', text):
        try:
            outs.append(base64.b64decode(m.group(1)).decode('utf-8', 'replace'))
        except Exception:
            pass
    return outs


def emit_once(idp, c, percert):
    from saml2_tophat import saml
    ident = {'givenName': [MARK['given']], MARK['attr_name']: [MARK['attr_value']]}
    nid = saml.NameID(text=MARK['subject'], format=saml.NAMEID_FORMAT_PERSISTENT)
    kw = dict(sign_response=c['sr'], sign_assertion=c['sa'], encrypt_assertion=c['enc'], encrypted_advice_attributes=c['adv'],
              encrypt_assertion_self_contained=c['selfc'])
    if c['enc'] is None:
        kw.pop('encrypt_assertion')          # left to the configuration
    if c.get('pefim'):
        kw['pefim'] = True
    if percert:
        kw['encrypt_cert_assertion'] = world.cert_b64(percert)
        if c['adv'] or c.get('variant') == 'advice-verifier-rejects':
            kw['encrypt_cert_advice'] = world.cert_b64(percert)
    if c.get('via') == 'attribute-response':
        kw.pop('encrypted_advice_attributes')
        return str(idp.create_attribute_response(ident, 'req1', ACS_POST, SP_X, name_id=nid, **kw))
    return str(idp.create_authn_response(ident, 'req1', ACS_POST, SP_X, name_id=nid, authn={'class_ref': forge.PASSWORD}, **kw))


def evaluate_emit(c):
    env.Clock.set(env.BASE)
    env.reset_rng()
    if c['seq']:
        _c.pop(('idp', c['layout']), None)
    idp = idp_for(c['layout'], c.get('variant'))
    try:
        if c['seq']:
            emit_once(idp, c, c['first'])
        text = emit_once(idp, c, c['percert'])
    except Exception as e:
        if c['seq']:
            _c.pop(('idp', c['layout']), None)
        return {'outcome': 'raised:%s' % type(e).__name__, 'bad': None}
    if c['seq']:
        _c.pop(('idp', c['layout']), None)
    if c.get('variant') in ('verifier-rejects', 'advice-verifier-rejects'):
        # whatever comes out must not be readable with the key of the rejected certificate
        d2, _f = oracle.decrypt_all(text, [c['percert']])
        leaked = [k for k in ('subject', 'attr_name', 'attr_value', 'given') if MARK[k] in d2 and MARK[k] not in text]
        return {'outcome': 'emitted-despite-rejected-certificate', 'bad': 'encrypted-for-a-certificate-the-configured-verifier-rejects' if leaked else None}
    if c.get('variant') == 'cfg-encrypt':
        c = dict(c, enc=True)
    has_cert = c['layout'] != 'none' or c['percert']
    recipient = c['percert'] or {'one': 'spXenc1', 'two': 'spXenc1', 'none': None, 'no-use': 'spXenc1', 'other-role': 'spXenc1'}[c['layout']]
    main_encrypted = c['enc'] and has_cert
    advice_only = c.get('pefim') and has_cert and not c['enc']
    if not main_encrypted and not advice_only:
        return {'outcome': 'not-encrypted-no-cert' if c['enc'] else 'advice-only', 'bad': None}
    bad = None
    for d in decodings(text):
        # advice-only: the main assertion (and its subject) legitimately stays in clear, the attributes do not
        for k in (('attr_name', 'attr_value', 'given') if advice_only else ('subject', 'attr_name', 'attr_value', 'given')):
            if MARK[k] in d:
                bad = 'marker-in-clear:%s' % k
    if advice_only:
        if not bad:
            dec, full = oracle.decrypt_all(text, [recipient])
            if MARK['attr_value'] not in dec:
                bad = 'advice-not-decryptable-with-recipients-key'
        return {'outcome': 'advice-encrypted', 'bad': bad}
    if not bad:
        dec, full = oracle.decrypt_all(text, [recipient])
        if not full or MARK['subject'] not in dec or MARK['attr_value'] not in dec:
            bad = 'not-decryptable-with-recipients-key'
        else:
            for other in ALLKEYS:
                if other == recipient:
                    continue
                d2, _f = oracle.decrypt_all(text, [other])
                if MARK['subject'] in d2 or MARK['attr_value'] in d2:
                    bad = 'decryptable-with-another-key:%s' % other
                    break
    return {'outcome': 'encrypted', 'bad': bad}


# ---------------------------------------------------------------- (b) accept

SP_LAYOUTS = {'first': ('spXenc1',), 'second': ('spXenc2', 'spXenc1'), 'none': ('spXenc2',), 'outstanding': ('spXenc2',)}
WANTS = ((True, False, False), (False, True, False), (False, False, True), (False, False, False))
OUTSTANDING = {'req1': '/home', 'req2': '/home', 'req3': '/other'}


def sp_for(layout, wants, allow=False):
    k = ('sp', layout, wants, allow)
    if k not in _c:
        _c[k] = world.make_sp(TMP[0], enc=SP_LAYOUTS[layout], want_response_signed=wants[0], want_assertions_signed=wants[1],
                              want_assertions_or_response_signed=wants[2], allow_unsolicited=allow)
    return _c[k]


def tamper(x):
    return x.replace('SessionIndex="s1"', 'SessionIndex="s2"', 1)


def flip_sig(x):
    i = x.index('<ds:SignatureValue>') + 30
    return x[:i] + ('A' if x[i] != 'A' else 'B') + x[i + 1:]


INNER = {
    # name: (assertion kwargs, sign_ass, mutate_after_ass_sign, clause demanding rejection or None, conv_info?)
    'valid-signed': (dict(), True, None, None),
    'valid-unsigned': (dict(), False, None, None),
    'sig-content-tampered': (dict(), True, tamper, 'signature-invalid'),
    'sig-value-tampered': (dict(), True, flip_sig, 'signature-invalid'),
    'signed-by-mallory': (dict(sign_key='mallory'), True, None, 'signature-invalid'),
    'cond-expired': (dict(cond_nooa=-10), True, None, 'expired'),
    'cond-not-yet': (dict(cond_nb=100), True, None, 'not-yet-valid'),
    'scd-expired': (dict(confirmations='scd-expired'), True, None, 'expired'),
    'session-expired': (dict(session_nooa=-10), True, None, 'expired'),
    'audience-other': (dict(audiences=(('urn:vp:someone-else',),)), True, None, 'audience'),
    'audience-me-and-other-restrictions': (dict(audiences=((SP_X,), ('urn:vp:someone-else',))), True, None, 'audience'),
    'scd-irt-other-same-came-from': (dict(confirmations='irt:req2'), True, None, 'unsolicited'),
    'scd-irt-other': (dict(confirmations='irt:req3'), True, None, 'unsolicited'),
    'scd-irt-unknown': (dict(confirmations='irt:nobody'), True, None, 'unsolicited'),
    'wrong-issuer-key': (dict(issuer=world.IDP_B), True, None, 'signature-invalid'),
    # confirmations that say nothing / something else about the request: whatever the plain form gets, the encrypted
    # form gets (differential clause)
    'scd-bearer-without-irt': (dict(confirmations='noirt'), True, None, None),
    'scd-sender-vouches-irt-other': (dict(confirmations='sv:req3'), True, None, None),
    'scd-sender-vouches-irt-unknown+bearer-ok': (dict(confirmations='sv:nobody+bearer'), True, None, None),
    'scd-holder-of-key-irt-other': (dict(confirmations='hok:req3'), True, None, None),
}
SV = 'urn:oasis:names:tc:SAML:2.0:cm:sender-vouches'
HOK = 'urn:oasis:names:tc:SAML:2.0:cm:holder-of-key'


def build_inner(name):
    akw, signed, mut, _why = INNER[name]
    akw = dict(akw)
    conf = akw.pop('confirmations', None)
    now = env.BASE
    if conf == 'scd-expired':
        akw['confirmations'] = [forge.confirmation(now, nooa=-10)]
    elif conf and conf.startswith('irt:'):
        akw['confirmations'] = [forge.confirmation(now, irt=conf[4:])]
    elif conf == 'noirt':
        akw['confirmations'] = [forge.confirmation(now, irt=None)]
    elif conf and conf.startswith('sv:'):
        irt = conf[3:].split('+')[0]
        akw['confirmations'] = [forge.confirmation(now, method=SV, irt=irt)] + ([forge.confirmation(now)] if conf.endswith('+bearer') else [])
    elif conf and conf.startswith('hok:'):
        akw['confirmations'] = [forge.confirmation(now, method=HOK, irt=conf[4:])]
    return akw, signed, mut


def build_doc(name, encrypted, resp_signed, encrypt_for='spXenc1', post=None):
    akw, signed, mut = build_inner(name)
    sign_key = akw.pop('sign_key', 'idpA')
    kw = dict(assertions=[akw], sign_ass=sign_key if signed else None, sign_resp='idpA' if resp_signed else None,
              mutate_after_ass_sign=mut)
    if encrypted:
        kw['encrypt'] = encrypt_for
        if post:
            kw['mutate_after_enc'] = post
    return forge.build(env.BASE, **kw)


def corrupt_cipher(which):
    def f(x):
        parts = x.split('<xenc:CipherValue>')
        i = which + 1
        seg = parts[i]
        j = 12
        seg = seg[:j] + ('A' if seg[j] != 'A' else 'B') + seg[j + 1:]
        parts[i] = seg
        return '<xenc:CipherValue>'.join(parts)
    return f


def truncate_cipher(x):
    return re.sub(r'(<xenc:CipherData><xenc:CipherValue>)([^<]{64})[^<]*(</xenc:CipherValue></xenc:CipherData></xenc:EncryptedData>)', r'\1\2\3', x, flags=re.S)


UNDEC = {
    'wrong-recipient': dict(encrypt_for='spY'),
    'cipher-corrupted': dict(post=corrupt_cipher(1)),
    'encrypted-key-corrupted': dict(post=corrupt_cipher(0)),
    'cipher-truncated': dict(post=truncate_cipher),
    'unknown-data-algorithm': dict(post=lambda x: x.replace('xmlenc#tripledes-cbc', 'xmlenc#rot13-cbc')),
    'unknown-key-algorithm': dict(post=lambda x: x.replace('xmlenc#rsa-1_5', 'xmlenc#rsa-0_0')),
    'no-keyinfo': dict(post=lambda x: re.sub(r'<ds:KeyInfo xmlns:ds="[^"]*"><xenc:EncryptedKey>.*?</xenc:EncryptedKey></ds:KeyInfo>', '', x, flags=re.S)),
    'empty-encrypted-assertion': dict(post=lambda x: re.sub(r'<xenc:EncryptedData.*?</xenc:EncryptedData>', '', x, flags=re.S)),
}


def accept_cells(thorough):
    out = []
    for name in INNER:
        for layout in SP_LAYOUTS:
            for wants in WANTS:
                for rs in (False, True):
                    if not thorough and layout in ('second', 'outstanding') and name not in ('valid-signed', 'sig-content-tampered', 'cond-expired', 'audience-other', 'scd-irt-other'):
                        continue
                    out.append(dict(t='accept', inner=name, layout=layout, wants=wants, resp_signed=rs))
    for how, wants, rs in itertools.product(('encrypted-attribute:own-key', 'encrypted-attribute:foreign-key'), WANTS, (False, True)):
        out.append(dict(t='undec', how=how, layout='first', wants=wants, resp_signed=rs))
    for name, layout, wants in itertools.product(UNDEC, ('first', 'second'), WANTS):
        out.append(dict(t='undec', how=name, layout=layout, wants=wants, resp_signed=True))
        out.append(dict(t='undec', how=name, layout=layout, wants=wants, resp_signed=False))
    # one long-lived SP holding two key pairs: valid responses encrypted for either key, in every order (<= 3)
    for n in (1, 2, 3):
        for seq in itertools.product(('spXenc1', 'spXenc2'), repeat=n):
            for rs in (False, True):
                out.append(dict(t='rotation', keys=list(seq), resp_signed=rs, wants=(False, False, True)))
    # signature wrapping inside the ciphertext: the C01 grammar around an assertion-signed start, then encrypted
    n = 0
    start = c01.start_doc('A')
    for coords, xml in c01.grammar(start, 'Assertion', tids=('fresh', 'same', 'empty')):
        n += 1
        if not thorough and not (coords['s2'] is None or coords['s1'] == coords['s2']):
            continue
        out.append(dict(t='wrap', coords=coords, wants=(False, True, False), doc=xml))
        if thorough:
            out.append(dict(t='wrap', coords=coords, wants=(False, False, True), doc=xml))
    # a stray EncryptedData element (an unsigned forged assertion inside) as a direct child of the Response, in front of
    # / behind the genuine EncryptedAssertion
    for where, wants, kind in itertools.product(('before', 'after', 'before-issuer'), WANTS, ('expired-unsigned', 'fresh-unsigned')):
        out.append(dict(t='stray', where=where, wants=wants, kind=kind))
    # encrypted advice carrying a tampered signed assertion
    for tam in (False, True):
        out.append(dict(t='advice', tampered=tam, wants=(True, False, False)))
    return out


def outstanding_certs_for(layout):
    if layout != 'outstanding':
        return None
    return {'req1': {'key': open(world.key('spXenc1')).read(), 'cert': open(world.crt('spXenc1')).read()}}


def evaluate_accept(c):
    env.Clock.set(env.BASE)
    if c['t'] == 'accept':
        name = c['inner']
        why = INNER[name][3]
        sp = sp_for(c['layout'], tuple(c['wants']))
        enc_doc = build_doc(name, True, c['resp_signed'])
        plain_doc = build_doc(name, False, c['resp_signed'])
        oc = outstanding_certs_for(c['layout'])
        e = oracle.accept_response(sp, enc_doc, outstanding=OUTSTANDING, outstanding_certs=oc)
        p = oracle.accept_response(sp, plain_doc, outstanding=OUTSTANDING)
        decryptable = c['layout'] != 'none'
        bad = None
        if e['accept']:
            if not decryptable:
                bad = 'identity-from-content-no-configured-key-decrypts'
            elif why:
                bad = 'encrypted-form-accepted-although-%s' % why
            elif not p['accept'] and p.get('exc') not in (None,):
                bad = 'encrypted-accepted-where-identical-plain-assertion-is-refused:%s' % p.get('exc')
            elif e['identity']['name_id'][0] != 'alice':
                bad = 'wrong-identity'
        return {'enc': [e['accept'], e.get('exc')], 'plain': [p['accept'], p.get('exc')], 'bad': bad}
    if c['t'] == 'rotation':
        _c.pop(('sp', 'second', tuple(c['wants']), False), None)
        sp = sp_for('second', tuple(c['wants']))
        bad = None
        trace = []
        for i, k in enumerate(c['keys']):
            doc = build_doc('valid-signed', True, c['resp_signed'], encrypt_for=k)
            e = oracle.accept_response(sp, doc, outstanding=OUTSTANDING)
            trace.append([k, e['accept'], e.get('exc')])
            if not e['accept'] or e['identity']['name_id'][0] != 'alice' or not e['identity']['ava']:
                bad = 'valid-response-for-a-held-key-not-read-at-step-%d:%s' % (i, e.get('exc') or 'empty-identity')
                break
        _c.pop(('sp', 'second', tuple(c['wants']), False), None)
        return {'enc': [bad is None, None], 'bad': bad, 'trace': trace}
    if c['t'] == 'undec' and c['how'].startswith('encrypted-attribute'):
        # one attribute of a plain assertion travels as EncryptedAttribute (for the SP's key, or for a key it does not
        # hold): an identity may come out only with that attribute in it, never with the attribute silently missing
        x = forge.build(env.BASE, sign_resp='idpA' if c['resp_signed'] else None)
        d = xmlsec.parse_doc(x)
        attr = [e for e in xmlsec.dfs(d.documentElement) if e.localName == 'Attribute'][0]
        name = attr.getAttribute('FriendlyName') or attr.getAttribute('Name')
        wrap = d.createElementNS(forge.SAML, 'saml:EncryptedAttribute')
        attr.parentNode.replaceChild(wrap, attr)
        wrap.appendChild(attr)
        xmlsec.encrypt_node(d, attr, forge.enc_template(), world.pub('spXenc1' if c['how'].endswith('own-key') else 'spY'))
        doc = d.documentElement.toxml()
        if c['resp_signed']:
            doc = forge.sign(doc, 'R1', 'idpA')
        sp = sp_for(c['layout'], tuple(c['wants']))
        e = oracle.accept_response(sp, doc, outstanding=OUTSTANDING)
        bad = None
        if e['accept'] and not any(k.lower() == name.lower() for k in e['identity']['ava']):
            bad = 'identity-with-an-encrypted-attribute-silently-dropped'
        return {'enc': [e['accept'], e.get('exc')], 'bad': bad}
    if c['t'] == 'undec':
        sp = sp_for(c['layout'], tuple(c['wants']))
        u = UNDEC[c['how']]
        doc = build_doc('valid-signed', True, c['resp_signed'], encrypt_for=u.get('encrypt_for', 'spXenc1'), post=u.get('post'))
        e = oracle.accept_response(sp, doc, outstanding=OUTSTANDING)
        return {'enc': [e['accept'], e.get('exc')], 'bad': 'identity-from-undecryptable-content' if e['accept'] else None}
    if c['t'] == 'wrap':
        doc = c.get('doc')
        if doc is None:
            for coords, xml in c01.grammar(c01.start_doc('A'), 'Assertion', tids=('fresh', 'same', 'empty')):
                if coords == c['coords']:
                    doc = xml
                    break
        if doc is None:
            return {'enc': [False, 'NOOP'], 'bad': None}
        try:
            x = forge.encrypt_assertions(doc, 'spXenc1')
        except Exception:
            return {'enc': [False, 'NOOP'], 'bad': None}
        sp = sp_for('first', tuple(c['wants']))
        e = oracle.accept_response(sp, x, outstanding=OUTSTANDING)
        bad = None
        if e['accept']:
            c01.TMP[0] = TMP[0]
            y = c01.judge(x, e, tuple(c['wants']), True)
            if y:
                bad = 'wrapped-inside-ciphertext:%s' % y
        return {'enc': [e['accept'], e.get('exc')], 'bad': bad}
    if c['t'] == 'stray':
        now = env.BASE
        genuine = build_doc('valid-signed', True, False)
        evil = forge.assertion(now, aid='EVIL1', attrs=(('title', (MARK['adv_value'],)),), subject='mallory',
                               **(dict(cond_nooa=-10, audiences=(('urn:vp:someone-else',),)) if c['kind'] == 'expired-unsigned' else {}))
        tmp = forge.encrypt_assertions(forge.response(now, [evil]), 'spXenc1')
        m = re.search(r'<xenc:EncryptedData.*?</xenc:EncryptedData>', tmp, flags=re.S)
        stray = m.group(0)
        if 'xmlns:xenc' not in stray.split('>', 1)[0]:
            stray = stray.replace('<xenc:EncryptedData', '<xenc:EncryptedData xmlns:xenc="http://www.w3.org/2001/04/xmlenc#"', 1)
        if c['where'] == 'before':
            x = genuine.replace('<saml:EncryptedAssertion', stray + '<saml:EncryptedAssertion', 1)
        elif c['where'] == 'after':
            x = genuine.replace('</saml:EncryptedAssertion>', '</saml:EncryptedAssertion>' + stray, 1)
        else:
            x = genuine.replace('<saml:Issuer', stray + '<saml:Issuer', 1)
        assert x != genuine
        sp = sp_for('first', tuple(c['wants']))
        e = oracle.accept_response(sp, x, outstanding=OUTSTANDING)
        bad = None
        if e['accept'] and (MARK['adv_value'] in repr(e['identity']['ava']) or e['identity']['name_id'][0] != 'alice'):
            bad = 'content-of-stray-encrypted-data-adopted'
        return {'enc': [e['accept'], e.get('exc')], 'bad': bad}
    if c['t'] == 'advice':
        now = env.BASE
        inner = forge.assertion(now, aid='ADV1', sign=True, attrs=(('adviceAttr', (MARK['adv_value'],)),))
        outer = forge.assertion(now, aid='A1', advice='<saml:EncryptedAssertion>%s</saml:EncryptedAssertion>' % inner)
        x = forge.response(now, [outer], sign=True)
        x = forge.sign(x, 'ADV1', 'idpA')
        if c['tampered']:
            x = x.replace(MARK['adv_value'], MARK['adv_value'] + '-forged')
        d = xmlsec.parse_doc(x)
        for el in xmlsec.dfs(d.documentElement):
            if el.localName == 'Assertion' and el.getAttribute('ID') == 'ADV1':
                xmlsec.encrypt_node(d, el, forge.enc_template(), world.pub('spXenc1'))
                break
        x = forge.sign(d.documentElement.toxml(), 'R1', 'idpA')
        sp = sp_for('first', tuple(c['wants']))
        e = oracle.accept_response(sp, x, outstanding=OUTSTANDING)
        bad = None
        if e['accept'] and c['tampered'] and MARK['adv_value'] in repr(e['identity']['ava']):
            bad = 'tampered-encrypted-advice-assertion-adopted'
        return {'enc': [e['accept'], e.get('exc')], 'bad': bad}


# ---------------------------------------------------------------- (c) two responses built concurrently

def sched_world():
    if 'sched-idp' not in _c:
        mdx = world.sp_md(keys=(('spX', 'signing'), ('spXenc1', 'encryption')))
        mdy = world.sp_md(world.SP_Y, keys=(('spY', 'signing'), ('spXenc2', 'encryption')), acs=(('https://spy.example/acs', world.BINDING_HTTP_POST, 0),), slo=())
        _c['sched-idp'] = world.make_idp(TMP[0], [mdx, mdy])
    return _c['sched-idp']


def sched_bodies():
    from saml2_tophat import saml
    idp = sched_world()

    def body(eid, acs, mark):
        def f():
            nid = saml.NameID(text='SUBJ-' + mark, format=saml.NAMEID_FORMAT_PERSISTENT)
            return str(idp.create_authn_response({'givenName': ['GIVEN-' + mark]}, 'req1', acs, eid, name_id=nid,
                                                 authn={'class_ref': forge.PASSWORD}, encrypt_assertion=True, sign_response=True))
        return f
    return [body(SP_X, ACS_POST, 'FOR-X'), body(world.SP_Y, 'https://spy.example/acs', 'FOR-Y')]


def sched_check(res):
    bad = []
    for i, (mark, own, other) in enumerate((('FOR-X', 'spXenc1', 'spXenc2'), ('FOR-Y', 'spXenc2', 'spXenc1'))):
        r = res[i]
        if r[0] != 'ok':
            bad.append('thread-%d-raised-%s' % (i, r[1]))
            continue
        text = r[1]
        if 'SUBJ-' + mark in text or 'GIVEN-' + mark in text:
            bad.append('marker-in-clear')
            continue
        dec, full = oracle.decrypt_all(text, [own])
        if not full or 'SUBJ-' + mark not in dec:
            bad.append('response-for-%s-not-decryptable-with-its-own-key' % mark[-1])
        d2, _f = oracle.decrypt_all(text, [other])
        if 'SUBJ-' + mark in d2:
            bad.append('response-for-%s-decryptable-with-the-other-providers-key' % mark[-1])
    return bad


def sched_files():
    import saml2_tophat
    d = os.path.dirname(saml2_tophat.__file__)
    return (os.path.join(d, 'entity.py'), os.path.join(d, 'server.py'))


def evaluate_sched(c):
    from vp import schedules
    if 'sched-warm' not in _c:
        for b in sched_bodies():
            b()
        schedules.run_schedule(sched_bodies, [], sched_files(), set())
        _c['sched-warm'] = True
    n, bad, npts, capped = schedules.explore(sched_bodies, sched_check, 1, sched_files(), set(), roots=[c['root']])
    out = []
    for choices, why, last in bad:
        out.append(([[i, ch] for i, ch in enumerate(choices) if ch], sorted(set(why))))
    return {'enc': [True, None], 'bad': None, 'n': n, 'sched_bad': out, 'points': npts}


def evaluate(c):
    if c['t'] == 'sched':
        return evaluate_sched(c)
    if c['t'] == 'emit':
        return evaluate_emit(c)
    return evaluate_accept(c)


def run(ctx):
    TMP[0] = ctx.tmp
    c01.TMP[0] = ctx.tmp
    cs = emit_cells(ctx.thorough) + accept_cells(ctx.thorough)
    # (c) every schedule with at most one preemption of two create_authn_response(encrypt) calls for two SPs on one Server
    from vp import schedules
    for b in sched_bodies():
        b()
    schedules.run_schedule(sched_bodies, [], sched_files(), set())
    s0, r0 = schedules.run_schedule(sched_bodies, [], sched_files(), set())
    for y in sched_check(r0):
        ctx.violation({'kind': y, 't': 'sched', 'switches': []}, {})
    sched_roots = schedules.children(s0, 0, 1)
    cs += [dict(t='sched', root=r) for r in sched_roots]
    res = ctx.pmap(evaluate, cs, chunksize=8)
    ctx.recheck(evaluate, cs, res, n=16)
    per = {}
    acc = 0
    hist = {}
    nontriv = set()
    n_sched = [1]
    for c, r in zip(cs, res):
        per[c['t']] = per.get(c['t'], 0) + 1
        if c['t'] == 'sched':
            n_sched[0] += r['n']
            for sw, why in r['sched_bad']:
                ctx.violation({'kind': why[0], 't': 'sched', 'switches': sw}, {'all': why})
            continue
        if c['t'] == 'emit':
            hist['emit:' + r['outcome']] = hist.get('emit:' + r['outcome'], 0) + 1
            if r['outcome'] == 'encrypted':
                nontriv.add(repr(sorted(c.items())))
        else:
            k = '%s:%s' % (c['t'], 'ACCEPT' if r['enc'][0] else 'REJECT:%s' % r['enc'][1])
            hist[k] = hist.get(k, 0) + 1
            acc += r['enc'][0]
            nontriv.add(repr(sorted((kk, str(v)) for kk, v in c.items() if kk != 'doc')))
        if r['bad']:
            key = {k: (list(v) if isinstance(v, tuple) else v) for k, v in c.items() if k != 'doc'}
            key['kind'] = r['bad'].split(':')[0]
            ctx.violation(key, {'detail': r['bad'], 'observed': {k: v for k, v in r.items() if k != 'bad'}})
    return {
        'level': 'model_checking',
        'coverage': {
            'states': len(cs), 'transitions': len(cs) + per.get('accept', 0), 'traces_validated_against_impl': len(cs) + per.get('accept', 0),
            'samples': [{'cell': {k: str(v)[:80] for k, v in cs[i].items() if k != 'doc'}, 'result': res[i]} for i in (0, len(cs) // 2, len(cs) - 1)],
            'exhaustive': True, 'per_layer': per, 'schedules': n_sched[0], 'scheduling_points_per_execution': len(s0.points), 'accepted': acc, 'distinct_outcomes': len(hist), 'outcome_histogram': hist,
            'rule': '(a) emit: SP encryption certificates in metadata (one, two, none, one key without a use attribute) x sign_response x sign_assertion x encrypt_assertion x encrypted_advice_attributes x self-contained x per-request certificate (absent, two different), the PEFIM profile (attributes in an always-encrypted advice assertion, with and without encryption of the main assertion) + two-step sequences on one Server; leak scan over the emitted text and its base64/percent/entity decodings for unique subject / attribute-name / attribute-value markers, decryption with the recipient key required and with each of the 9 other keys of the world forbidden. (c) every thread schedule with at most one preemption (line-level points in entity.py and server.py) of two concurrent create_authn_response(encrypt_assertion) calls for two SPs on one Server: each response decryptable with its own SP key only. (b) accept: %d inner-assertion variants (valid, signature content/value tampered, foreign key, wrong issuer, Conditions/SCD/Session expired, not yet valid, audience other / mixed restrictions, SCD InResponseTo naming another outstanding request with the same and a different came_from, unknown request) x SP key layout (first key, second key, none, outstanding_certs key) x 4 requirement settings x response signed/unsigned, each also in plain form; %d undecryptable variants; the C01 wrapping grammar inside the ciphertext; tampered encrypted advice; every sequence of up to 3 valid responses encrypted for either key of one long-lived SP holding two key pairs (each must be read)' % (len(INNER), len(UNDEC)),
        },
        'assumptions': ['xmlsec1 model at the seam (template-driven 3DES/RSA-1_5 encryption, first EncryptedData per run)', 'markers are unique strings so that a substring scan decides leakage'],
    }


def replay(ctx, w):
    TMP[0] = ctx.tmp
    c01.TMP[0] = ctx.tmp
    if w.get('t') == 'sched':
        from vp import schedules, checks
        from vp.checks import c15
        for b in sched_bodies():
            b()
        schedules.run_schedule(sched_bodies, [], sched_files(), set())
        s, res = schedules.run_schedule(sched_bodies, c15.expand_switches(w['switches']), sched_files(), set())
        why = sched_check(res)
        return {'violation': bool(why), 'why': why}
    c = dict(w)
    c.pop('kind', None)
    if 'wants' in c:
        c['wants'] = tuple(c['wants'])
    r = evaluate(c)
    return {'violation': bool(r['bad']), 'observed': r}
