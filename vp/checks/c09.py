"""C09 - the IdP answers only to endpoints registered for the requesting SP (complete product table)."""
import itertools

from vp import env, world, forge
from vp.world import BINDING_HTTP_POST as POST, BINDING_HTTP_REDIRECT as REDIR, BINDING_ARTIFACT as ART, BINDING_SOAP as SOAP

TMP = [None]
_c = {}
X, Y = world.SP_X, world.SP_Y
PAOS = 'urn:oasis:names:tc:SAML:2.0:bindings:PAOS'
SIMPLESIGN = 'urn:oasis:names:tc:SAML:2.0:bindings:HTTP-POST-SimpleSign'      # a binding the library has no constant for
# a third SP whose identifier is not ASCII; its canonically equivalent (NFD) spelling is a different identifier
Z = 'https://sp.example.org/caf\u00e9'
Z_NFD = 'https://sp.example.org/cafe\u0301'
Z_ACS = [('https://spz.example/acs/post', POST, 0)]
UX = {'P': 'https://spx.example/acs/post', 'R': 'https://spx.example/acs/redirect', 'A': 'https://spx.example/acs/artifact',
      'P2': 'https://spx.example/acs/post2'}
UY = {'P': 'https://spy.example/acs/post', 'R': 'https://spy.example/acs/redirect'}
SLO_X = [('https://spx.example/slo/soap', SOAP), ('https://spx.example/slo/redirect', REDIR)]
SLO_Y = [('https://spy.example/slo/soap', SOAP), ('https://spy.example/slo/post', POST)]
MNI_X = [('https://spx.example/mni/soap', SOAP)]

LAYOUTS = {
    'three-bindings': [(UX['P'], POST, 0), (UX['R'], REDIR, 1), (UX['A'], ART, 2)],
    'post-only': [(UX['P'], POST, 0)],
    'two-post': [(UX['P'], POST, 0, 'false'), (UX['P2'], POST, 1, 'true')],
    'redirect-first': [(UX['R'], REDIR, 0), (UX['P'], POST, 1)],
    'duplicate-index': [(UX['P'], POST, 0), (UX['R'], REDIR, 0)],
    'no-index': [(UX['P'], POST, None), (UX['R'], REDIR, None)],
    # X declares AuthnRequestsSigned="true" in its metadata
    'three-bindings+signs-requests': [(UX['P'], POST, 0), (UX['R'], REDIR, 1), (UX['A'], ART, 2)],
    # the IdP gets its metadata from an MDQ service (modelled at mdstore.requests.get) which answers unknown
    # identifiers with a 200 fallback document: the descriptor of X
    'three-bindings@mdq-fallback': [(UX['P'], POST, 0), (UX['R'], REDIR, 1), (UX['A'], ART, 2)],
    'three-bindings@mdq-strict': [(UX['P'], POST, 0), (UX['R'], REDIR, 1), (UX['A'], ART, 2)],
    # endpoints for the reverse-SOAP binding and for a binding unknown to the library next to a POST one
    'post+simplesign+paos': [(UX['P'], POST, 0), ('https://spx.example/acs/simplesign', SIMPLESIGN, 1), ('https://spx.example/acs/paos', PAOS, 2)],
    # isDefault on an endpoint of one binding while endpoints of other usable bindings exist
    'default-on-post+artifact': [(UX['A'], ART, 0), (UX['P'], POST, 1, 'true'), (UX['R'], REDIR, 2)],
    'default-on-artifact+post': [(UX['P'], POST, 0), (UX['A'], ART, 1, 'true')],
    'default-on-redirect+post': [(UX['P'], POST, 0, 'false'), (UX['R'], REDIR, 1, 'true')],
    'simplesign+artifact': [('https://spx.example/acs/simplesign', SIMPLESIGN, 0), (UX['A'], ART, 1)],
}
Y_ACS = [(UY['P'], POST, 0), (UY['R'], REDIR, 1)]


def md_x(acs, ars=None):
    mdx = world.sp_md(X, acs=acs, slo=SLO_X, extra='', authn_requests_signed=ars)
    # manage-name-id endpoint for X
    return mdx.replace('<md:AssertionConsumerService', '<md:ManageNameIDService Binding="%s" Location="%s"/><md:AssertionConsumerService' % (SOAP, MNI_X[0][0]), 1)


def md_y():
    return world.sp_md(Y, keys=(('spY', 'signing'),), acs=Y_ACS, slo=SLO_Y)


def md_z():
    return world.sp_md(Z, keys=(('spY', 'signing'),), acs=Z_ACS, slo=())


class _MdqResp(object):
    def __init__(self, code, body=''):
        self.status_code = code
        self.content = body.encode('utf-8')
        self.text = body


def mdq_get(layout):
    """Model of an MDQ front end: /entities/{sha1}<hex> for X and Y; unknown identifiers get 404 (strict) or the
    service's fallback document, X's descriptor, with status 200."""
    import hashlib
    docs = {}
    for eid, doc in ((X, md_x(LAYOUTS[layout])), (Y, md_y()), (Z, md_z())):
        docs['{sha1}' + hashlib.sha1(eid.encode('utf-8')).hexdigest()] = doc

    def get(url, **kw):
        key = url.rsplit('/', 1)[1]
        if key in docs:
            return _MdqResp(200, docs[key])
        if layout.endswith('fallback'):
            return _MdqResp(200, md_x(LAYOUTS[layout]))
        return _MdqResp(404)
    return get


def server(layout):
    if layout not in _c:
        if '@mdq' in layout:
            from saml2_tophat import mdstore
            from saml2_tophat.config import IdPConfig
            from saml2_tophat.server import Server
            conf = world.idp_config(TMP[0], [])
            conf['metadata'] = {'mdq': ['https://mdq.example']}
            c = IdPConfig()
            c.load(conf)
            _c[layout] = Server(config=c)
        else:
            _c[layout] = world.make_idp(TMP[0], [md_x(LAYOUTS[layout], ars=True if layout.endswith('+signs-requests') else None), md_y(), md_z()])
    if '@mdq' in layout:
        from saml2_tophat import mdstore

        class _Req(object):
            get = staticmethod(mdq_get(layout))
        mdstore.requests = _Req       # the seam: module attribute used by MetaDataMDX
    return _c[layout]


REFRESH = ('drop-endpoints', 'drop-sp')


def refreshed_acs(layout, how):
    """X's consumer endpoints after the metadata refresh"""
    return LAYOUTS[layout][:1] if how == 'drop-endpoints' else []


def refreshed_server(layout, how, warm):
    """A private Server whose metadata file for X is rewritten and reloaded under the same key after `warm`
    lookups were served from it."""
    import os, tempfile
    d = tempfile.mkdtemp(prefix='refresh-', dir=TMP[0])
    srv = world.make_idp(d, [md_x(LAYOUTS[layout]), md_y()])
    for u, b in warm:
        try:
            srv.response_args(build_msg('AuthnRequest', u, None, b, 'X'))
        except Exception:
            pass
    path = world.write_md(d, md_x(LAYOUTS[layout]))
    assert path in srv.metadata.metadata, sorted(srv.metadata.metadata)
    new = md_x(refreshed_acs(layout, how)) if how == 'drop-endpoints' else world.sp_md('urn:vp:spZ', acs=[('https://spz.example/acs', POST, 0)])
    with open(path, 'w', encoding='utf-8') as f:
        f.write(new)
    srv.metadata.load('local', path)
    return srv


def url_variants(layout):
    regs = [t[0] for t in LAYOUTS[layout]]
    out = [None] + regs
    out += [UY['P'], 'https://attacker.example/acs', regs[0].replace('spx.example', 'SPX.example'), regs[0] + '/',
            regs[0][:-1], regs[0] + '?x=1', regs[0].replace('https://', 'https://spx.example@evil.example/'), '']
    return out


def cells(thorough):
    out = []
    for layout in LAYOUTS:
        idxs = [None] + sorted(set(str(t[2]) for t in LAYOUTS[layout] if t[2] is not None)) + ['9', 'x']
        pbs = [None, POST, REDIR, ART, 'urn:vp:unknown-binding']
        for url, idx, pb, iss in itertools.product(url_variants(layout), idxs, pbs, ('X', 'Y', 'unknown')):
            if not thorough and iss != 'X' and (idx is not None and pb is not None):
                continue
            out.append(('AuthnRequest', layout, url, idx, pb, iss, None))
            if idx is None and (thorough or iss == 'X'):
                # the caller restricts the bindings it can answer with
                for bnd in ([POST], [REDIR], [REDIR, POST]):
                    out.append(('AuthnRequest', layout, url, idx, pb, iss, bnd))
            if layout.endswith('+signs-requests') and idx is None:
                # the request carries a ds:Signature element (what it is worth is not this property's business)
                out.append(('AuthnRequest@signed', layout, url, idx, pb, iss, None))
        for iss in ('X', 'Y', 'unknown', 'absent'):
            for bnd in (None, [SOAP], [REDIR], [POST]):
                out.append(('LogoutRequest', layout, None, None, None, iss, bnd))
                out.append(('ManageNameIDRequest', layout, None, None, None, iss, bnd))
        out.append(('AuthnRequest', layout, None, None, None, 'absent', None))
        # the registered non-ASCII identifier and its decomposed twin (not registered)
        for iss, url, pb in itertools.product(('Z', 'Z-nfd'), (None, Z_ACS[0][0], UX['P'], 'https://attacker.example/acs'), (None, POST)):
            out.append(('AuthnRequest', layout, url, None, pb, iss, None))
        if any(t[1] == PAOS for t in LAYOUTS[layout]):
            # the ECP front end: the caller answers over PAOS only / the request asks for PAOS
            for url, iss in itertools.product(url_variants(layout), ('X', 'Y', 'unknown')):
                out.append(('AuthnRequest', layout, url, None, None, iss, [PAOS]))
                out.append(('AuthnRequest', layout, url, None, PAOS, iss, None))
                out.append(('AuthnRequest', layout, url, None, PAOS, iss, [PAOS]))
        # non-initial state: X's legitimate request first, then Y / an unknown issuer supplying X's URL
        for iss in ('Y', 'unknown'):
            out.append(('AuthnRequest@after-X', layout, LAYOUTS[layout][0][0], None, None, iss, None))
            out.append(('AuthnRequest@after-X', layout, LAYOUTS[layout][0][0], None, LAYOUTS[layout][0][1], iss, None))
        # non-initial state: lookups for X served, then X's metadata source refreshed (same key) with fewer endpoints
        # or without X; a request naming a de-registered address follows
        if len(LAYOUTS[layout]) > 1:
            for how in REFRESH:
                for u, b in [(t[0], t[1]) for t in LAYOUTS[layout]] + [(None, None)]:
                    out.append(('AuthnRequest@refresh:' + how, layout, u, None, None, 'X', None))
                    if b is not None:
                        out.append(('AuthnRequest@refresh:' + how, layout, u, None, b, 'X', None))
    return out


def registered(kind, layout, iss):
    """(location, binding) pairs the requester's own metadata registers for the relevant service."""
    if kind.startswith('AuthnRequest'):
        if iss == 'X' and '@refresh:' in kind:
            return [(t[0], t[1]) for t in refreshed_acs(layout, kind.split(':')[1])]
        if iss == 'X':
            return [(t[0], t[1]) for t in LAYOUTS[layout]]
        if iss == 'Y':
            return [(t[0], t[1]) for t in Y_ACS]
        if iss == 'Z':
            return [(t[0], t[1]) for t in Z_ACS]
        return []
    if kind == 'LogoutRequest':
        return {'X': SLO_X, 'Y': SLO_Y}.get(iss, [])
    if kind == 'ManageNameIDRequest':
        return {'X': MNI_X}.get(iss, [])
    return []


ISS = {'X': X, 'Y': Y, 'unknown': 'urn:vp:nobody', 'absent': None, 'Z': Z, 'Z-nfd': Z_NFD}


def build_msg(kind, url, idx, pb, iss):
    from saml2_tophat import samlp
    k = kind.split('@')[0]
    xml = forge.request(env.BASE, kind=k, issuer=ISS[iss], acs_url=url, acs_index=idx, protocol_binding=pb,
                        sign='spX' if kind.endswith('@signed') else None)
    return getattr(samlp, {'AuthnRequest': 'authn_request_from_string', 'LogoutRequest': 'logout_request_from_string',
                           'ManageNameIDRequest': 'manage_name_id_request_from_string'}[k])(xml)


def evaluate(cell):
    kind, layout, url, idx, pb, iss, bnd = cell
    env.Clock.set(env.BASE)
    if kind.endswith('@after-X'):
        _c.pop(layout, None)
    if '@refresh:' in kind:
        srv = refreshed_server(layout, kind.split(':')[1], [(t[0], t[1]) for t in LAYOUTS[layout]])
    else:
        srv = server(layout)
    if kind.endswith('@after-X'):
        try:
            srv.response_args(build_msg('AuthnRequest', url, None, pb, 'X'))
        except Exception:
            pass
    msg = build_msg(kind, url, idx, pb, iss)
    try:
        info = srv.response_args(msg, bnd) if bnd else srv.response_args(msg)
        res = {'ok': True, 'destination': info.get('destination'), 'binding': info.get('binding')}
    except Exception as e:
        res = {'ok': False, 'exc': type(e).__name__}
    if kind.endswith('@after-X'):
        _c.pop(layout, None)
    return res


def judge(cell, r):
    kind, layout, url, idx, pb, iss, bnd = cell
    if not r['ok']:
        return None
    dest, binding = r['destination'], r['binding']
    if bnd == [SOAP] and dest == '':
        return None             # answered on the back channel: no destination is derived
    if iss in ('unknown', 'absent', 'Z-nfd'):
        if dest:
            return 'destination-for-requester-absent-from-metadata'
        return None
    regs = registered(kind, layout, iss)
    if '@mdq' in layout and iss == 'Y':
        regs = [(t[0], t[1]) for t in Y_ACS] if kind.startswith('AuthnRequest') else regs
    if binding == POST and (dest, SIMPLESIGN) in regs and (dest, POST) not in regs:
        return 'destination-registered-for-another-binding'
    if (dest, binding) not in regs:
        if url is not None and dest == url and url not in [u for u, _b in regs]:
            return 'answered-to-supplied-unregistered-address'
        if dest in [u for u, _b in regs]:
            return 'destination-registered-for-another-binding'
        return 'destination-not-registered-for-requester'
    return None


def run(ctx):
    TMP[0] = ctx.tmp
    cs = cells(ctx.thorough)
    res = ctx.pmap(evaluate, cs)
    ctx.recheck(evaluate, cs, res, n=48)
    ok = 0
    nontriv = set()
    hist = {}
    for c, r in zip(cs, res):
        ok += r['ok']
        k = 'OK' if r['ok'] else 'EXC:%s' % r['exc']
        hist[k] = hist.get(k, 0) + 1
        if c[2] is not None or c[3] is not None or c[5] != 'X':
            nontriv.add(c[:6] + (repr(c[6]),))
        y = judge(c, r)
        if y:
            ctx.violation({'kind': y, 'message': c[0], 'layout': c[1], 'url': c[2], 'index': c[3], 'protocol_binding': c[4],
                           'issuer': c[5], 'bindings_arg': c[6]}, {'result': r})
    if not ok:
        ctx.note('VACUOUS: no request is answered')
    i0 = len(cs) // 2
    return {
        'level': 'exploration',
        'coverage': {
            'evaluations': len(cs), 'distinct_nontrivial': len(nontriv), 'exhaustive': True, 'answered': ok, 'vacuous': ok == 0,
            'rule': 'complete product: 6 SP metadata layouts (1-3 ACS endpoints over POST/Redirect/Artifact, two POST endpoints with isDefault, Redirect listed first, duplicate index, no index; SLO and ManageNameID endpoints; a second SP with its own URLs) x supplied consumer URL (absent, each registered, other SP\'s, unregistered, case-changed host, trailing slash, truncated, extra query, userinfo trick, empty) x index (absent, each known, unknown, non-numeric) x ProtocolBinding (absent, POST, Redirect, Artifact, unknown) x issuer (X, Y, unknown, absent) x bindings argument of response_args (absent, POST, Redirect, both); requests carrying a ds:Signature from an SP whose metadata says AuthnRequestsSigned; metadata obtained from an MDQ service (strict, and one that answers unknown identifiers with a fallback document); LogoutRequest / ManageNameIDRequest x issuer x bindings argument; plus the non-initial states "X asked first" and "X served, then the metadata source of X reloaded under the same key with fewer endpoints / without X"; non-trivial = anything but a plain request of X',
            'samples': [{'cell': list(cs[i0]), 'result': res[i0]}], 'distinct_outcomes': len(hist), 'outcome_histogram': hist,
        },
        'assumptions': ['requests are built by parsing forged XML with the library\'s own *_from_string (no signature involved)',
                        'one-directional: refusing (exception) is always fine'],
    }


def replay(ctx, w):
    TMP[0] = ctx.tmp
    c = (w['message'], w['layout'], w['url'], w['index'], w['protocol_binding'], w['issuer'], w['bindings_arg'])
    r = evaluate(c)
    return {'violation': bool(judge(c, r)), 'result': r}
