"""C10 - incoming requests are validated before an IdP or SP acts on them.

(a) product table over request type x binding x signature state x want_authn_requests_signed x Destination x
IssueInstant x Version x schema damage; (b) state graph over tree edits of validly signed requests (+ primed layer);
(c) encoding damage: every truncation of the transport encoding."""
import itertools

from vp import env, world, forge, oracle, edits, xmlsec
from vp.world import BINDING_HTTP_POST as POST, BINDING_HTTP_REDIRECT as REDIR, BINDING_SOAP as SOAP

TMP = [None]
_c = {}
DAY = 86400
EP = {
    'single_sign_on_service': {REDIR: 'https://idpa.example/sso', POST: 'https://idpa.example/sso/post'},
    'single_logout_service': {SOAP: 'https://idpa.example/slo', REDIR: 'https://idpa.example/slo/r', POST: 'https://idpa.example/slo/p'},
    'manage_name_id_service': {SOAP: 'https://idpa.example/mni'},
    'name_id_mapping_service': {SOAP: 'https://idpa.example/nim'},
    'assertion_id_request_service': {SOAP: 'https://idpa.example/air'},
    'attribute_service': {SOAP: 'https://idpa.example/aa'},
    'authn_query_service': {SOAP: 'https://idpa.example/aq'},
    'authz_service': {SOAP: 'https://idpa.example/pdp'},
}
KINDS = {
    'AuthnRequest': ('parse_authn_request', 'single_sign_on_service', (REDIR, POST)),
    'LogoutRequest': ('parse_logout_request', 'single_logout_service', (SOAP, POST, REDIR)),
    'AttributeQuery': ('parse_attribute_query', 'attribute_service', (SOAP,)),
    'AuthnQuery': ('parse_authn_query', 'authn_query_service', (SOAP,)),
    'AuthzDecisionQuery': ('parse_authz_decision_query', 'authz_service', (SOAP,)),
    'NameIDMappingRequest': ('parse_name_id_mapping_request', 'name_id_mapping_service', (SOAP,)),
    'ManageNameIDRequest': ('parse_manage_name_id_request', 'manage_name_id_service', (SOAP,)),
    'AssertionIDRequest': ('parse_assertion_id_request', 'assertion_id_request_service', (SOAP,)),
}
ROOT_TAG = {k: k for k in KINDS}


def server(want, slack=None, only=None, narrow=False):
    k = (repr(want), slack) if only is None else (repr(want), slack, only)
    if narrow:
        k = k + ('narrow',)
    if k not in _c:
        def lst(svc):
            # narrow: the receiver registers its sign-on and logout services for one binding only (Redirect / SOAP)
            return [(u, b) for b, u in EP[svc].items()][:1] if (narrow and svc in ('single_sign_on_service', 'single_logout_service')) else [(u, b) for b, u in EP[svc].items()]
        idp_eps = {s: lst(s) for s in ('single_sign_on_service', 'single_logout_service', 'manage_name_id_service',
                                       'name_id_mapping_service', 'assertion_id_request_service')}
        opts = {}
        if want is not None:
            opts['want_authn_requests_signed'] = want
        conf = world.idp_config(TMP[0], [world.sp_md(), world.sp_md(world.SP_Y, keys=(('spY', 'signing'),), acs=(('https://spy.example/acs', POST, 0),), slo=())],
                                endpoints=idp_eps, **opts)
        conf['service']['aa'] = {'endpoints': {'attribute_service': lst('attribute_service')}}
        conf['service']['aq'] = {'endpoints': {'authn_query_service': lst('authn_query_service')}}
        conf['service']['pdp'] = {'endpoints': {'authz_service': lst('authz_service')}}
        if slack is not None:
            conf['accepted_time_diff'] = slack
        if only is not None:
            conf['only_use_keys_in_metadata'] = only
        from saml2_tophat.config import IdPConfig
        from saml2_tophat.server import Server
        c = IdPConfig()
        c.load(conf)
        _c[k] = Server(config=c)
    return _c[k]


def encode(xml, binding):
    if binding == REDIR:
        return forge.enc_redirect(xml)
    if binding == POST:
        return forge.enc_post(xml)
    return forge.enc_soap(xml)


def parse(srv, kind, enc, binding):
    fn = getattr(srv, KINDS[kind][0])
    try:
        r = fn(enc, binding)
        ok = r is not None and getattr(r, 'message', None) is not None
        return {'accept': bool(ok), 'exc': None if ok else 'None', 'type': type(r.message).__name__ if ok else None,
                'id': r.message.id if ok else None, 'fields': _fields(r.message) if ok else None}
    except Exception as e:
        return {'accept': False, 'exc': type(e).__name__}


def _fields(m):
    return {'destination': m.destination, 'issuer': m.issuer.text if m.issuer else None,
            'acs': getattr(m, 'assertion_consumer_service_url', None)}


DEST = ('absent', 'own', 'other-service', 'other-binding', 'foreign')
SIG = ('none', 'valid', 'invalid', 'non-metadata-key', 'other-sp-key')
# a signed request whose SignatureMethod names an algorithm the tool does not know; the URI ends in the tool's verdict word
ALG_ECHO = {'alg-echo-OK': 'http://www.w3.org/2001/04/xmldsig-more#rsa-sha256-OK', 'alg-echo-sp-OK': 'urn:vp:alg OK',
            'alg-echo-status-OK': 'urn:vp:Verification status: OK',
            # Unicode line boundaries are legal XML characters: the echoed URI must not be read as several lines
            'alg-echo-ls-OK': 'urn:vp:alg\u2028OK\u2028x', 'alg-echo-nel-OK': 'urn:vp:alg\u0085OK\u0085x'}
II = (0, DAY - 5, -(DAY - 5), DAY + 5, -(DAY + 5), 400 * DAY, -400 * DAY)
DAMAGE = {
    'none': None,
    'subject-confirmation-without-method': ('<saml:NameID', '<saml:SubjectConfirmation/><saml:NameID-NOT'),
    'nameid-policy-bad-boolean': ('AllowCreate="true"', 'AllowCreate="maybe"'),
    'issuer-empty-format-child': None,
}


def dest_value(d, kind, binding):
    svc = KINDS[kind][1]
    if d == 'absent':
        return None
    if d == 'own':
        return EP[svc][binding]
    if d == 'other-service':
        other = 'single_logout_service' if svc != 'single_logout_service' else 'single_sign_on_service'
        return list(EP[other].values())[0]
    if d == 'other-binding':
        alts = [u for b, u in EP[svc].items() if b != binding]
        return alts[0] if alts else EP[svc][binding] + '/elsewhere'
    return 'https://evil.example/sso'


def cells(thorough):
    out = []
    for kind, (_fn, svc, bindings) in KINDS.items():
        for binding in bindings:
            for sig, want, d, ii in itertools.product(SIG, (None, False, True), DEST, II):
                if not thorough:
                    # quick: all pairs around a base cell
                    nd = sum([sig != 'valid', d != 'own', ii != 0])
                    if nd > 1 and not (kind == 'AuthnRequest' and binding == POST and nd == 2):
                        continue
                if binding == REDIR and sig in ('non-metadata-key', 'other-sp-key'):
                    continue
                out.append(dict(t='table', kind=kind, binding=binding, sig=sig, want=want, dest=d, ii=ii, version='2.0', damage='none', slack=None))
            for v in ('1.0', '1.1', '2.1', '3.0', 'two', ''):
                out.append(dict(t='table', kind=kind, binding=binding, sig='none', want=None, dest='own', ii=0, version=v, damage='none', slack=None))
            for slack, ii in itertools.product((0, 60), (DAY + 5, DAY + 65, -(DAY + 5), -(DAY + 65))):
                out.append(dict(t='table', kind=kind, binding=binding, sig='none', want=None, dest='absent', ii=ii, version='2.0', damage='none', slack=slack))
    # IssueInstant written in another zone or with a fraction: the *instant* counts (a receiver may refuse the spelling,
    # it must not read the digits as UTC)
    H = 3600
    for kind, (_fn, svc, bindings) in KINDS.items():
        for binding in bindings:
            for style, ii in (('+13:00', -36 * H), ('+13:00', -(DAY + 5)), ('+13:00', 0), ('+14:00', -37 * H), ('-11:00', 34 * H),
                              ('-11:00', DAY + 5), ('-11:00', 0), ('-12:00', 35 * H), ('.999Z', DAY + 5), ('.999Z', -(DAY + 5)),
                              ('+01:00', DAY + 5), ('+01:00', -(DAY + 1800))):
                out.append(dict(t='table', kind=kind, binding=binding, sig='none', want=None, dest='own', ii=ii, version='2.0',
                                damage='none', slack=None, style=style))
    # keys outside the metadata allowed (only_use_keys_in_metadata False): still only when the issuer's metadata has none
    for kind, binding in (('AuthnRequest', POST), ('LogoutRequest', SOAP), ('AttributeQuery', SOAP), ('LogoutRequest', POST)):
        for sig, want, only in itertools.product(('non-metadata-key+keyinfo', 'other-sp-key+keyinfo', 'valid', 'non-metadata-key'), (None, True), (False, True)):
            out.append(dict(t='table', kind=kind, binding=binding, sig=sig, want=want, dest='own', ii=0, version='2.0', damage='none', slack=None, only=only))
    # LogoutRequest carrying its own NotOnOrAfter: the IssueInstant window applies all the same
    for binding in KINDS['LogoutRequest'][2]:
        for ii, slack in itertools.product((DAY + 5, -(DAY + 5), 400 * DAY, -400 * DAY, 0), (None, 60)):
            out.append(dict(t='table', kind='LogoutRequest', binding=binding, sig='none', want=None, dest='own', ii=ii, version='2.0', damage='none',
                            slack=slack, extra_attrs=' NotOnOrAfter="%s"' % forge.ts(env.BASE + 3600)))
    for kind, (_fn, svc, bindings) in KINDS.items():
        for binding in bindings:
            if binding == REDIR:
                continue
            for sig, want in itertools.product(ALG_ECHO, (None, True)):
                out.append(dict(t='table', kind=kind, binding=binding, sig=sig, want=want, dest='own', ii=0, version='2.0', damage='none', slack=None))
    # other truthy spellings of the wish for signed requests (a number, the documented string form)
    for kind, (_fn, svc, bindings) in KINDS.items():
        for binding in bindings:
            for want, sig in itertools.product((1, 'true'), ('none', 'valid', 'invalid')):
                out.append(dict(t='table', kind=kind, binding=binding, sig=sig, want=want, dest='own', ii=0, version='2.0', damage='none', slack=None))
    # a receiver that has been running for three days: "now" is the time of the check, not of an earlier moment
    for kind, (_fn, svc, bindings) in KINDS.items():
        for binding in bindings[:2]:
            for ii, slack in itertools.product((0, DAY - 5, DAY + 5, -(DAY + 5), -3 * DAY, -3 * DAY + 600, -4 * DAY), (None, 60)):
                out.append(dict(t='table', kind=kind, binding=binding, sig='none', want=None, dest='own', ii=ii, version='2.0', damage='none',
                                slack=slack, late=3 * DAY))
    # a receiver that registers the service for another binding than the one the request arrives over: the Destination
    # still has to be one of its endpoints for that service
    for kind, binding in (('AuthnRequest', POST), ('LogoutRequest', POST), ('LogoutRequest', REDIR)):
        for d, sig in itertools.product(DEST, ('none', 'valid')):
            out.append(dict(t='table', kind=kind, binding=binding, sig=sig, want=None, dest=d, ii=0, version='2.0', damage='none', slack=None, narrow=True))
    # schema damage below mandatory children
    for kind, dmg in (('AttributeQuery', 'subject-confirmation-without-method'), ('AuthnQuery', 'subject-confirmation-without-method'),
                      ('AuthzDecisionQuery', 'subject-confirmation-without-method'), ('LogoutRequest', 'name-id-without-text'),
                      ('AuthnRequest', 'nameid-policy-bad-boolean'), ('AuthnRequest', 'issuer-format-not-uri'),
                      ('AttributeQuery', 'attribute-without-name'), ('ManageNameIDRequest', 'two-new-ids'),
                      ('AuthnRequest', 'wrong-root'), ('LogoutRequest', 'wrong-root'),
                      ('AuthnRequest', 'nameid-policy-bad-boolean+nil'), ('AttributeQuery', 'attribute-without-name+nil'),
                      ('AttributeQuery', 'subject-confirmation-without-method+nil'), ('AuthnQuery', 'subject-confirmation-without-method+nil'),
                      ('AuthnRequest', 'id-missing+nil-on-root'), ('LogoutRequest', 'id-missing+nil-on-root'), ('AttributeQuery', 'id-missing+nil-on-root')):
        b = KINDS[kind][2][-1] if kind == 'AuthnRequest' else KINDS[kind][2][0]
        out.append(dict(t='table', kind=kind, binding=b, sig='none', want=None, dest='own', ii=0, version='2.0', damage=dmg, slack=None))
    return out


def damage(xml, kind, dmg):
    if dmg == 'none':
        return xml
    if dmg == 'subject-confirmation-without-method':
        import re
        return re.sub(r'(</(\w+):NameID>)(</\2:Subject>)', r'\1<\2:SubjectConfirmation/>\3', xml, 1)
    if dmg == 'name-id-without-text':
        return xml
    if dmg == 'nameid-policy-bad-boolean':
        return xml.replace('AllowCreate="true"', 'AllowCreate="maybe"')
    if dmg == 'issuer-format-not-uri':
        return xml
    if dmg == 'attribute-without-name':
        import re
        return re.sub(r'(</(\w+):Subject>)', r'\1<\2:Attribute/>', xml, 1)
    if dmg == 'two-new-ids':
        return xml
    if dmg == 'wrong-root':
        other = 'LogoutRequest' if kind == 'AuthnRequest' else 'AuthnRequest'
        return xml.replace(':%s' % kind, ':%s' % other)
    NIL = ' xmlns:xsi="http://www.w3.org/2001/XMLSchema-instance" xsi:nil="true"'
    if dmg == 'nameid-policy-bad-boolean+nil':
        # the same damage on an element that also says xsi:nil="true" (a foreign attribute here)
        return xml.replace('AllowCreate="true"', 'AllowCreate="maybe"' + NIL)
    if dmg == 'attribute-without-name+nil':
        import re
        return re.sub(r'(</(\w+):Subject>)', r'\1<\2:Attribute%s/>' % NIL, xml, 1)
    if dmg == 'subject-confirmation-without-method+nil':
        import re
        return re.sub(r'(</(\w+):NameID>)(</\2:Subject>)', r'\1<\2:SubjectConfirmation%s/>\3' % NIL, xml, 1)
    if dmg == 'id-missing+nil-on-root':
        return xml.replace(' ID="Q1"', NIL, 1)
    return xml


DMG_EFFECTIVE = ('subject-confirmation-without-method', 'nameid-policy-bad-boolean', 'attribute-without-name', 'wrong-root',
                 'nameid-policy-bad-boolean+nil', 'attribute-without-name+nil', 'subject-confirmation-without-method+nil', 'id-missing+nil-on-root')


def build(c):
    kind, binding = c['kind'], c['binding']
    key = {'none': None, 'valid': 'spX', 'invalid': 'spX', 'non-metadata-key': 'mallory', 'other-sp-key': 'spY',
           'non-metadata-key+keyinfo': 'mallory', 'other-sp-key+keyinfo': 'spY'}.get(c['sig'], 'spX')
    xml = forge.request(env.BASE + c.get('late', 0), kind=kind, dest=dest_value(c['dest'], kind, binding), version=c['version'], issue_offset=c['ii'], sign=key,
                        et_prefixes=(binding == SOAP), style=c.get('style', 'Z'), keyinfo=('x509:' + key) if c['sig'].endswith('+keyinfo') else None,
                        extra_attrs=c.get('extra_attrs', ''))
    if c['sig'] == 'invalid':
        xml = xml.replace('Version="2.0"', 'Version="2.0" Consent="urn:x"', 1)
    if c['sig'] in ALG_ECHO:
        import re
        xml, n = re.subn(r'(SignatureMethod Algorithm=")[^"]*(")', lambda m: m.group(1) + ALG_ECHO[c['sig']] + m.group(2), xml, count=1)
        assert n == 1
    return damage(xml, kind, c['damage'])


def must_reject(c):
    why = []
    kind, binding = c['kind'], c['binding']
    svc = KINDS[kind][1]
    if c['version'] != '2.0':
        why.append('version')
    if c.get('narrow'):
        d = dest_value(c['dest'], kind, binding)
        own = list(EP[svc].values())[:1]            # what the narrow receiver registers for the service
        if d is not None and d not in own:
            why.append('destination-not-receivers-endpoint-for-service')
    elif c['dest'] not in ('absent', 'own'):
        d = dest_value(c['dest'], kind, binding)
        if d not in EP[svc].values() or True:
            if d != EP[svc][binding]:
                why.append('destination-not-receivers-endpoint-for-service')
    slack = c['slack'] or 0
    if abs(c['ii']) > DAY + slack + 1:
        why.append('issue-instant-outside-window')
    if c['sig'] in ('invalid', 'non-metadata-key', 'other-sp-key', 'non-metadata-key+keyinfo', 'other-sp-key+keyinfo') or c['sig'] in ALG_ECHO:
        why.append('signature-does-not-verify-under-issuers-key')
    if c['want'] in (True, 'true') and c['want'] is not False and c['sig'] == 'none':
        why.append('unsigned-although-signed-requests-wanted')
    if c['damage'] in DMG_EFFECTIVE:
        why.append('schema-invalid:%s' % c['damage'])
    return why


def evaluate(c):
    if c['t'] == 'table':
        with env.in_zone(env.zone_of(sorted(c.items()))):
            return _evaluate(c)
    return _evaluate(c)


def _evaluate(c):
    env.Clock.set(env.BASE + (c.get('late', 0) if c['t'] == 'table' else 0))
    if c['t'] == 'table':
        srv = server(c['want'], c['slack'], c.get('only'), bool(c.get('narrow')))
        xml = build(c)
        r = parse(srv, c['kind'], encode(xml, c['binding']), c['binding'])
        why = must_reject(c) if r['accept'] else []
        if r['accept'] and not why and r['type'] != c['kind']:
            why = ['parsed-as-other-type:%s' % r['type']]
        ok_side = None
        if not r['accept'] and not must_reject(c) and c['damage'] == 'none':
            # not an acceptance property; recorded only
            ok_side = r['exc']
            if c.get('late') and abs(c['ii']) < DAY - 60:
                # ... except as evidence that the window is not measured from the time of the check: the same request
                # with the same age is taken at the initial clock value
                env.Clock.set(env.BASE)
                c0 = dict(c, late=0)
                r0 = parse(srv, c['kind'], encode(build(c0), c['binding']), c['binding'])
                if r0['accept']:
                    why = ['fresh-request-refused-after-the-clock-advanced:%s' % r['exc']]
        return {'accept': r['accept'], 'exc': r.get('exc'), 'why': why, 'valid_rejected': ok_side}
    if c['t'] == 'edit':
        srv = server(None)
        kind, binding = c['kind'], c['binding']
        base = signed_start(kind, binding)
        if c.get('primed'):
            _c.pop((repr(None), None), None)
            srv = server(None)
            first = parse(srv, kind, encode(base, binding), binding)
            if not first['accept']:
                return {'accept': False, 'exc': 'PRIMING-REJECTED', 'why': []}
        x = edits.apply_all(base, c['ops'])
        if x is None or x == base:
            return {'accept': False, 'exc': 'NOOP', 'why': []}
        r = parse(srv, kind, encode(x, binding), binding)
        if c.get('primed'):
            _c.pop((repr(None), None), None)
        why = []
        if r['accept']:
            try:
                d = xmlsec.parse_doc(x)
                root = d.documentElement
                has = bool(xmlsec.children(root, xmlsec.DS, 'Signature'))
                ok, reason = oracle.strict_signature(d, root, ['spX']) if has else (False, 'signature-removed')
                if has and not ok:
                    why.append('modified-signed-request-accepted:%s' % reason)
            except xmlsec.Fail:
                why.append('unparseable-request-accepted')
        return {'accept': r['accept'], 'exc': r.get('exc'), 'why': why}
    if c['t'] == 'seq':
        # one fresh receiver, several signed requests in turn: each verdict must depend on that request's issuer and key only
        _c.pop((repr(c['want']), None), None)
        srv = server(c['want'])
        kind, binding = c['kind'], c['binding']
        why = []
        trace = []
        for n, (iss, key) in enumerate(c['steps']):
            xml = forge.request(env.BASE, kind=kind, rid='Q%d' % n, issuer={'X': world.SP_X, 'Y': world.SP_Y}[iss],
                                dest=EP[KINDS[kind][1]][binding], sign=key, et_prefixes=(binding == SOAP))
            r = parse(srv, kind, encode(xml, binding), binding)
            genuine = key == {'X': 'spX', 'Y': 'spY'}[iss]
            trace.append([iss, key, r['accept'], r.get('exc')])
            if r['accept'] and not genuine:
                why.append('request-signed-with-another-key-accepted-at-step-%d' % n)
            if not r['accept'] and genuine:
                why.append('genuine-signed-request-rejected-at-step-%d:%s' % (n, r.get('exc')))
        _c.pop((repr(c['want']), None), None)
        return {'accept': all(t[2] for t in trace), 'exc': None, 'why': why, 'trace': trace}
    if c['t'] == 'xsw':
        from vp.checks import c01
        srv = server(c['want'])
        kind, binding = c['kind'], c['binding']
        base = signed_start(kind, binding)
        why = []
        n = acc = 0
        for coords, x in c01.grammar(base, 'Request', only=c['block']):
            n += 1
            r = parse(srv, kind, encode(x, binding), binding)
            if not r['accept']:
                continue
            acc += 1
            d = xmlsec.parse_doc(x)
            root = d.documentElement
            has = bool(xmlsec.children(root, xmlsec.DS, 'Signature'))
            ok, reason = oracle.strict_signature(d, root, ['spX']) if has else (False, 'no-signature-child')
            if (has or c['want']) and not ok:
                why.append('wrapped-request-accepted:%s:%s' % (reason, {k: v for k, v in coords.items() if k not in ('kind', 'target')}))
        return {'accept': bool(acc), 'exc': None, 'why': why[:20], 'n': n, 'n_acc': acc}
    if c['t'] == 'trunc':
        srv = server(None)
        kind, binding = c['kind'], c['binding']
        enc = encode(forge.request(env.BASE, kind=kind, dest=EP[KINDS[kind][1]][binding]), binding)
        bad = []
        n = 0
        for cut in c['cuts']:
            n += 1
            r = parse(srv, kind, enc[:cut], binding)
            if r['accept']:
                bad.append(cut)
        for name, garbled in (('not-base64', '!!!' + enc[3:]), ('reversed', enc[::-1]), ('empty', ''), ('xml-not-encoded', forge.request(env.BASE, kind=kind))):
            if binding == SOAP and name in ('not-base64',):
                continue
            n += 1
            r = parse(srv, kind, garbled, binding)
            if r['accept'] and name != 'xml-not-encoded':
                bad.append(name)
        return {'accept': False, 'exc': None, 'why': ['truncated-or-garbled-encoding-accepted:%s' % bad[:3]] if bad else [], 'n': n}


STARTS = {}


def signed_start(kind, binding):
    k = (kind, binding)
    if k not in STARTS:
        STARTS[k] = forge.request(env.BASE, kind=kind, dest=EP[KINDS[kind][1]][binding], sign='spX',
                                  extensions='<f:Ext xmlns:f="urn:vp:foreign">e</f:Ext>', et_prefixes=(binding == SOAP))
    return STARTS[k]


def edit_cells(thorough):
    out = []
    for kind, binding in (('AuthnRequest', POST), ('LogoutRequest', SOAP), ('AttributeQuery', SOAP)) + ((('ManageNameIDRequest', SOAP), ('LogoutRequest', POST)) if thorough else ()):
        env.Clock.set(env.BASE)
        base = signed_start(kind, binding)
        ops = edits.depth1(base, full=True)
        for o in ops:
            out.append(dict(t='edit', kind=kind, binding=binding, ops=o))
            if o[0][0] in ('text', 'attr', 'del') and kind == 'AuthnRequest':
                out.append(dict(t='edit', kind=kind, binding=binding, ops=o, primed=True))
        # wrap the signed request into Extensions of a fresh request carrying a copy of the signature
        doc = xmlsec.parse_doc(base)
        ns, s = edits.sites(doc)
        if thorough:
            for o in ops:
                if o[0][0] in ('copy', 'move', 'wrap') and o[0][1] in s['sig']:
                    x1 = edits.apply_all(base, o)
                    if x1 is None:
                        continue
                    for f in edits.followups(x1)[:40]:
                        out.append(dict(t='edit', kind=kind, binding=binding, ops=[o[0], f]))
    return out


def seq_cells(thorough):
    out = []
    ops = [('X', 'spX'), ('Y', 'spY'), ('X', 'spY'), ('Y', 'spX'), ('X', 'mallory')]
    for kind, binding in (('AuthnRequest', POST), ('LogoutRequest', SOAP)) + ((('AttributeQuery', SOAP), ('LogoutRequest', POST)) if thorough else ()):
        for want in ((None, True) if kind == 'AuthnRequest' else (None,)):
            for n in (2, 3) if thorough else (2,):
                for steps in itertools.product(ops, repeat=n):
                    out.append(dict(t='seq', kind=kind, binding=binding, want=want, steps=[list(x) for x in steps]))
    return out


def xsw_cells(thorough):
    from vp.checks import c01
    out = []
    for kind, binding, wants in (('AuthnRequest', POST, (None, True)), ('LogoutRequest', SOAP, (None,)), ('AttributeQuery', SOAP, (None,))):
        for want in wants:
            for tid in ('fresh', 'same'):
                for oslot in c01.O_SLOTS_Q:
                    out.append(dict(t='xsw', kind=kind, binding=binding, want=want, block=[tid, oslot]))
    return out


def trunc_cells(thorough):
    out = []
    for kind, (_fn, svc, bindings) in KINDS.items():
        for binding in bindings:
            if not thorough and kind not in ('AuthnRequest', 'LogoutRequest', 'AttributeQuery'):
                continue
            env.Clock.set(env.BASE)
            enc = encode(forge.request(env.BASE, kind=kind, dest=EP[svc][binding]), binding)
            cuts = list(range(1, len(enc))) if thorough else sorted(set(list(range(1, len(enc), 7)) + list(range(max(1, len(enc) - 40), len(enc)))))
            for i in range(0, len(cuts), 200):
                out.append(dict(t='trunc', kind=kind, binding=binding, cuts=cuts[i:i + 200]))
    return out


def run(ctx):
    TMP[0] = ctx.tmp
    cs = cells(ctx.thorough) + edit_cells(ctx.thorough) + seq_cells(ctx.thorough) + xsw_cells(ctx.thorough) + trunc_cells(ctx.thorough)
    res = ctx.pmap(evaluate, cs, chunksize=16)
    ctx.recheck(evaluate, cs, res, n=24)
    n_table = n_edit = n_trunc = acc = n_seq = n_xsw = 0
    nontriv = set()
    hist = {}
    valid_rejected = 0
    for c, r in zip(cs, res):
        k = 'ACCEPT' if r['accept'] else 'REJECT:%s' % r['exc']
        hist[k] = hist.get(k, 0) + 1
        acc += r['accept']
        if c['t'] == 'table':
            n_table += 1
            if must_reject(c):
                nontriv.add(('table', repr(sorted(c.items()))))
            if r.get('valid_rejected'):
                valid_rejected += 1
        elif c['t'] == 'edit':
            n_edit += 1
            nontriv.add(('edit', c['kind'], repr(c['ops']), c.get('primed', False)))
        elif c['t'] == 'seq':
            n_seq += 1
            nontriv.add(('seq', c['kind'], c['want'], repr(c['steps'])))
        elif c['t'] == 'xsw':
            n_xsw += r.get('n', 0)
            nontriv.add(('xsw', c['kind'], c['want'], repr(c['block'])))
        else:
            n_trunc += r.get('n', 0)
            nontriv.add(('trunc', c['kind'], c['binding'], c['cuts'][0]))
        for y in r['why']:
            key = {kk: vv for kk, vv in c.items() if kk not in ('cuts',)}
            key['binding'] = c['binding'].rsplit(':', 1)[1]
            key['kind_of_violation'] = y.split(':')[0]
            key['request'] = key.pop('kind')
            key['kind'] = key.pop('kind_of_violation')
            ctx.violation(key, {'detail': y})
    if not acc:
        ctx.note('VACUOUS: no request accepted')
    # the pristine signed starts must be accepted (non-vacuity of the edit layer)
    for (kind, binding) in list(STARTS):
        r = parse(server(None), kind, encode(signed_start(kind, binding), binding), binding)
        if not r['accept']:
            ctx.note('signed start %s/%s not accepted: %s' % (kind, binding, r['exc']))
    return {
        'level': 'model_checking',
        'coverage': {
            'states': n_edit + n_table + n_seq + n_xsw, 'transitions': n_edit + n_table + n_trunc + n_seq + n_xsw,
            'traces_validated_against_impl': n_edit + n_table + n_trunc + n_seq + n_xsw, 'sequence_cells': n_seq, 'wrap_grammar_documents': n_xsw,
            'samples': [{'cell': {k: str(v)[:80] for k, v in cs[i].items()}, 'result': res[i]} for i in (0, len(cs) // 2)],
            'exhaustive': True, 'table_cells': n_table, 'edit_states': n_edit, 'encoding_damage_cases': n_trunc, 'accepted': acc,
            'valid_requests_rejected_noted': valid_rejected, 'distinct_outcomes': len(hist), 'outcome_histogram': hist,
            'rule': '(a) %s product: 8 request types x their bindings x signature state (none, valid, invalid, non-metadata key, other SP\'s key) x want_authn_requests_signed (absent, False, True; an unsigned request of any type is refused when it is on) x Destination (absent, own, own endpoint of another service / binding, foreign) x IssueInstant offset (0, +-(1 day -5 s), +-(1 day +5 s), +-400 d; with allowance 0 and 60) x Version; schema damage below mandatory children; (b) every depth-1 tree edit%s of validly signed AuthnRequest/LogoutRequest/AttributeQuery (C01 alphabet), text/attr/delete edits also on a receiver that has just accepted the genuine request; (b2) the complete signature-wrapping grammar of C01 around a validly signed AuthnRequest (signed requests wanted / not wanted), LogoutRequest and AttributeQuery: modified twin with fresh or same ID x place of the genuine request (absent, Extensions, Issuer, Signature/Object, last child) x genuine keeps its signature x up to two signature copies in 6 places each referencing the genuine or the twin; (b3) every sequence of 2 (thorough: 3) signed requests from two SPs, each signed with its own, the key of the other SP or a foreign key, on one fresh receiver; signatures by foreign keys with the certificate of the signer embedded, with only_use_keys_in_metadata on and off; LogoutRequests carrying NotOnOrAfter with IssueInstant outside the window; IssueInstant also written in other zones (+13:00, +14:00, -11:00, -12:00, +01:00) and with fractions; (c) %s truncation of the transport encoding + garbled encodings; all through the real Server.parse_* entry points' % ('complete' if ctx.thorough else 'pairwise-around-a-base-cell (complete for AuthnRequest/POST pairs)', ' + depth-2 signature relocation family' if ctx.thorough else '', 'every' if ctx.thorough else 'every 7th + the last 40'),
        },
        'assumptions': ['table cells / federations are evaluated in a process time zone (UTC, UTC+5, UTC-5) chosen as a function of their coordinates: verdicts must not depend on it', 'every explored (service, binding) has a configured endpoint (the destination test is skipped otherwise and the statement does not cover that case)',
                        'one-directional oracle; xmlsec1 model at the seam'],
    }


def replay(ctx, w):
    TMP[0] = ctx.tmp
    c = dict(w)
    c['kind'] = c.pop('request')
    c.pop('kind_of_violation', None)
    c['binding'] = {'HTTP-POST': POST, 'HTTP-Redirect': REDIR, 'SOAP': SOAP}[c['binding']]
    if c['t'] == 'trunc':
        return {'violation': False, 'note': 'truncation witnesses are replayed by the check itself'}
    r = evaluate(c)
    return {'violation': bool(r['why']), 'observed': r}
