"""C07 - an IdP never releases attributes beyond what its policy allows.

Complete product over small identity / policy / SP-declaration alphabets through the real
Server.create_authn_response and create_attribute_response; oracle is an independent set-based reference filter."""
import itertools
import re

from vp import env, world, forge, xmlsec
from vp.world import SP_X, ACS_POST

TMP = [None]
_c = {}
OID = {'givenName': 'urn:oid:2.5.4.42', 'sn': 'urn:oid:2.5.4.4', 'mail': 'urn:oid:0.9.2342.19200300.100.1.3',
       'title': 'urn:oid:2.5.4.12', 'eduPersonTargetedID': 'urn:oid:1.3.6.1.4.1.5923.1.1.1.10',
       'displayName': 'urn:oid:2.16.840.1.113730.3.1.241', 'uid': 'urn:oid:0.9.2342.19200300.100.1.1',
       'eduPersonPrincipalName': 'urn:oid:1.3.6.1.4.1.5923.1.1.1.6'}
FULL = {'givenName': ['Alice'], 'sn': ['Smith'], 'mail': ['alice@example.org', 'alice@other.net'], 'title': ['Dr'],
        'eduPersonTargetedID': ['tid-1'], 'displayName': ['Ålice Ünicöde'], 'secret': ['S3CR3T-VALUE']}
IDENTITIES = {
    'full': FULL,
    'no-mail': {k: v for k, v in FULL.items() if k != 'mail'},
    'no-givenName': {k: v for k, v in FULL.items() if k != 'givenName'},
    'secret-only': {'secret': ['S3CR3T-VALUE']},
    'case-variant': {'GivenName': ['Alice'], 'MAIL': ['alice@example.org'], 'secret': ['S3CR3T-VALUE'], 'title': ['Dr']},
    'mail-other-only': {'givenName': ['Alice'], 'mail': ['alice@other.net'], 'secret': ['S3CR3T-VALUE']},
    # attribute names that merely contain / are contained in the names a policy lists
    'near-names': {'givenName': ['Alice'], 'givenNameX': ['NEAR-1'], 'mailbox': ['NEAR-2'], 'mai': ['NEAR-3'], 'titles': ['NEAR-4'],
                   'xmail': ['NEAR-5'], 'secret': ['S3CR3T-VALUE']},
    # single values handed over as plain strings; the mail value merely contains the value an SP may ask for
    # values that are not text (what a directory wrapper may hand over): patterns apply to their text form
    'typed-values': {'givenName': ['Alice'], 'mail': [4711, True, 'alice@example.org'], 'title': [7], 'secret': ['S3CR3T-VALUE']},
    # the same strings under two attributes that have different patterns
    'shared-values': {'givenName': ['Alice', 'Dr', 'alice@example.org'], 'title': ['Dr', 'Alice', 'alice@example.org'],
                      'mail': ['alice@example.org', 'Alice', 'Dr'], 'secret': ['S3CR3T-VALUE']},
    'shared-values-reversed': {'mail': ['Dr', 'Alice', 'alice@example.org'], 'title': ['alice@example.org', 'Alice', 'Dr'],
                               'givenName': ['alice@example.org', 'Dr', 'Alice'], 'secret': ['Alice']},
    'pvp': {'PVP-GID': ['gid-1'], 'PVP-BPK': ['bpk-1'], 'PVP-CHARGE-CODE': ['cc-1'], 'mail': ['alice@example.org'], 'givenName': ['Alice'], 'secret': ['S3CR3T-VALUE']},
    'string-valued': {'givenName': 'Alice', 'mail': 'xalice@example.org', 'title': 'Dr', 'secret': 'S3CR3T-VALUE'},
}


def txt(x):
    if isinstance(x, bool):
        return 'true' if x else 'false'
    return x if isinstance(x, str) else str(x)


def as_list(v):
    return [v] if isinstance(v, str) else [txt(x) for x in v]

RESTR = {
    'absent': 'ABSENT',
    'None': None,
    'names': {'givenName': None, 'mail': None, 'title': None},
    'regex': {'mail': [r'.*@example\.org$'], 'givenName': None, 'title': None},
    'regex-nothing': {'mail': ['^nomatch$'], 'givenName': None},
    # two overlapping patterns: one value matches both, the other none
    # a pattern of its own for each of three attributes
    'regex-each': {'givenName': ['^Alice$'], 'title': ['^Dr$'], 'mail': [r'.*@example\.org$']},
    'regex-overlap': {'mail': [r'.*@example\.org$', r'^alice@example.*'], 'givenName': None, 'title': None},
}
CATS = ('absent', 'refeds', 'swamid', 'edugain', 'at_egov_pvp2')      # (the last one has no always-released entry)
FAIL = ('absent', True, False)
ENTRY = ('default', 'per-sp', 'per-sp-partial', 'none')      # 'none': no policy section at all (the default policy is in force)
RS = 'http://refeds.org/category/research-and-scholarship'
COCO = 'http://www.geant.net/uri/dataprotection-code-of-conduct/v1'
SWAMID_RE = 'http://www.swamid.se/category/research-and-education'
SWAMID_HEI = 'http://www.swamid.se/category/hei-service'
# independent copy of the category tables (from the category specifications the modules implement)
CAT_TABLE = {
    'refeds': {'': ['eduPersonTargetedID'], RS: ['eduPersonPrincipalName', 'eduPersonScopedAffiliation', 'mail', 'givenName', 'sn', 'displayName']},
    'edugain': {'': ['eduPersonTargetedID'], COCO: ['eduPersonPrincipalName', 'eduPersonScopedAffiliation', 'eduPersonAffiliation', 'mail', 'displayName', 'cn', 'schacHomeOrganization']},
    'swamid': {'': ['eduPersonTargetedID'], RS: ['eduPersonTargetedID', 'eduPersonPrincipalName', 'mail', 'displayName', 'givenName', 'sn', 'eduPersonScopedAffiliation'],
               (SWAMID_RE, SWAMID_HEI): ['givenName', 'displayName', 'sn', 'cn', 'c', 'o', 'co', 'norEduOrgAcronym', 'schacHomeOrganization', 'schacHomeOrganizationType', 'eduPersonPrincipalName', 'eduPersonScopedAffiliation', 'mail', 'eduPersonAssurance']},
}
PVP2 = 'http://www.ref.gv.at/ns/names/agiz/pvp/egovtoken'
PVP2CHARGE = 'http://www.ref.gv.at/ns/names/agiz/pvp/egovtoken-charge'
CAT_TABLE['at_egov_pvp2'] = {PVP2: ['PVP-VERSION', 'PVP-PRINCIPAL-NAME', 'PVP-GIVENNAME', 'PVP-BIRTHDATE', 'PVP-USERID', 'PVP-GID', 'PVP-BPK', 'PVP-MAIL',
                                    'PVP-TEL', 'PVP-PARTICIPANT-ID', 'PVP-PARTICIPANT-OKZ', 'PVP-OU-OKZ', 'PVP-OU', 'PVP-OU-GV-OU-ID', 'PVP-FUNCTION', 'PVP-ROLES'],
                             PVP2CHARGE: ['PVP-INVOICE-RECPT-ID', 'PVP-COST-CENTER-ID', 'PVP-CHARGE-CODE']}
ONLY_REQUIRED = {'edugain': {COCO}}
SP_DECL = {
    'none': (),
    'required-subset': (('givenName', True, ()),),
    'required-missing': (('givenName', True, ()), ('mail', True, ()), ('uid', True, ())),
    'required+optional': (('givenName', True, ()), ('mail', True, ()), ('title', False, ())),
    'value-met': (('mail', True, ('alice@example.org',)), ('givenName', False, ())),
    'value-unmet': (('mail', True, ('nobody@nowhere.example',)), ('givenName', False, ())),
    'optional-only': (('title', False, ()),),
    'optional-absent': (('uid', False, ()),),
    # a value list that also carries an empty AttributeValue element: still a value list
    'value-met+empty': (('mail', True, ('alice@example.org', '')), ('givenName', False, ())),
    # the declaration sits in one of two SPSSODescriptor elements (the other one, e.g. for SAML 1.1, declares nothing)
    'two-descr-second-bare': (('givenName', True, ()), ('mail', True, ()), ('title', False, ())),
    'two-descr-first-bare': (('givenName', True, ()), ('mail', True, ()), ('title', False, ())),
    # a second AttributeConsumingService that requests nothing
    'second-acs-empty': (('givenName', True, ()), ('mail', False, ())),
}
BARE_DESCR = ('<md:SPSSODescriptor protocolSupportEnumeration="urn:oasis:names:tc:SAML:2.0:protocol">'
              '<md:AssertionConsumerService Binding="urn:oasis:names:tc:SAML:1.0:profiles:browser-post" '
              'Location="https://spx.example/acs11" index="0"/></md:SPSSODescriptor>')
SP_CATS = {'none': (), 'rs': (RS,), 'coco': (COCO,), 'swamid-half': (SWAMID_RE,), 'swamid-full': (SWAMID_RE, SWAMID_HEI),
           # the same category value listed twice (legal metadata): still only half of the swamid combination
           'swamid-half-twice': (SWAMID_RE, SWAMID_RE), 'rs+swamid-half-twice': (RS, SWAMID_RE, SWAMID_RE),
           # category URIs as values of *other* entity attributes (category support, assurance): no membership
           'pvp2': (PVP2,), 'pvp2+charge': (PVP2, PVP2CHARGE),
           'rs-as-support': ('@http://macedir.org/entity-category-support', RS, COCO),
           'coco+rs-as-assurance': (COCO, '@urn:oasis:names:tc:SAML:attribute:assurance-certification', RS)}


def member_cats(cats):
    out = []
    for c in SP_CATS[cats]:
        if c.startswith('@'):
            break
        out.append(c)
    return tuple(out)
QUERY = ('mail', 'title', 'secret', 'sn', 'displayName')       # attributes an AttributeQuery names (aa role)


def sp_metadata(decl, cats):
    req = tuple((OID[n], n, r, vals) for n, r, vals in SP_DECL[decl])
    extra = ''
    if SP_CATS[cats]:
        groups = [['http://macedir.org/entity-category']]
        for c in SP_CATS[cats]:
            if c.startswith('@'):
                groups.append([c[1:]])
            else:
                groups[-1].append(c)
        attrs = ''.join('<saml:Attribute xmlns:saml="urn:oasis:names:tc:SAML:2.0:assertion" Name="%s" '
                        'NameFormat="urn:oasis:names:tc:SAML:2.0:attrname-format:uri">%s</saml:Attribute>'
                        % (g[0], ''.join('<saml:AttributeValue>%s</saml:AttributeValue>' % c for c in g[1:])) for g in groups if len(g) > 1)
        extra = ('<md:Extensions><mdattr:EntityAttributes xmlns:mdattr="urn:oasis:names:tc:SAML:metadata:attribute">'
                 '%s</mdattr:EntityAttributes></md:Extensions>' % attrs)
    md = world.sp_md(requested=req, extra=extra)
    if decl == 'two-descr-second-bare':
        md = md.replace('</md:EntityDescriptor>', BARE_DESCR + '</md:EntityDescriptor>')
    elif decl == 'two-descr-first-bare':
        md = md.replace('<md:SPSSODescriptor', BARE_DESCR + '<md:SPSSODescriptor', 1)
    elif decl == 'second-acs-empty':
        md = md.replace('</md:AttributeConsumingService>', '</md:AttributeConsumingService><md:AttributeConsumingService index="1">'
                        '<md:ServiceName xml:lang="en">second</md:ServiceName></md:AttributeConsumingService>', 1)
    return md


def policy_dict(entry, restr, cat, fail):
    if entry == 'none':
        return None
    spec = {}
    if RESTR[restr] != 'ABSENT':
        spec['attribute_restrictions'] = RESTR[restr]
    if cat != 'absent':
        spec['entity_categories'] = [cat]
    if fail != 'absent':
        spec['fail_on_missing_requested'] = fail
    if entry == 'default':
        return {'default': spec}
    if entry == 'per-sp':
        # the SP's own entry carries the rules, the default is maximally permissive
        return {'default': {'lifetime': {'minutes': 15}}, SP_X: spec}
    # per-sp-partial: SP entry exists but leaves the release rules to the default entry (per-key fallback)
    return {'default': spec, SP_X: {'lifetime': {'minutes': 5}}}


def server(entry, restr, cat, fail, decl, cats, role):
    k = (entry, restr, cat, fail, decl, cats, role)
    if k not in _c:
        pol = policy_dict(entry, restr, cat, fail)
        if role == 'idp':
            _c[k] = world.make_idp(TMP[0], [sp_metadata(decl, cats)], policy=pol)
        elif role == 'idp@md':
            # one entity serving idp and aa (the aa section without policy); the application has rendered its own
            # metadata from the configuration object before the first login
            from saml2_tophat.config import IdPConfig
            from saml2_tophat.server import Server
            from saml2_tophat.metadata import entity_descriptor
            conf = world.idp_config(TMP[0], [sp_metadata(decl, cats)], policy=pol)
            conf['service']['aa'] = {'endpoints': {'attribute_service': [('https://idpa.example/aa', world.BINDING_SOAP)]}}
            c = IdPConfig()
            c.load(conf)
            _c[k] = Server(config=c)
            entity_descriptor(_c[k].config)
        else:
            from saml2_tophat.config import Config
            from saml2_tophat.server import Server
            conf = world.idp_config(TMP[0], [sp_metadata(decl, cats)], policy=pol)
            aa = conf['service'].pop('idp')
            aa['endpoints'] = {'attribute_service': [('https://idpa.example/aa', world.BINDING_SOAP)]}
            conf['service']['aa'] = aa
            c = Config()
            c.load(conf, metadata_construction=False)
            c.context = 'aa'
            _c[k] = Server(config=c)
        if len(_c) > 40:
            for kk in list(_c)[:20]:
                _c.pop(kk, None)
    return _c[k]


def released(xml):
    """(success, {name: [values]}) read independently from the emitted XML."""
    d = xmlsec.parse_doc(xml)
    ok = 'status:Success' in xml
    out = {}
    for e in xmlsec.dfs(d.documentElement):
        if e.localName == 'Attribute' and e.namespaceURI == forge.SAML:
            name = e.getAttribute('FriendlyName') or e.getAttribute('Name')
            for v in xmlsec.elems(e):
                if v.localName == 'AttributeValue':
                    inner = [c for c in xmlsec.elems(v) if c.localName == 'NameID']     # eduPersonTargetedID form
                    out.setdefault(name, []).append(xmlsec.text(inner[0]) if inner else xmlsec.text(v))
    return ok, out


def permitted(identity, restr, cat, decl, cats):
    """Reference filter: name -> allowed values (subset of the identity), from the statement."""
    allowed = {k: as_list(v) for k, v in identity.items()}
    if cat != 'absent':
        table = CAT_TABLE[cat]
        required = [n.lower() for n, r, _v in SP_DECL[decl] if r]
        ent = set()
        for key, attrs in table.items():
            if key == '':
                ok = True
            elif isinstance(key, tuple):
                ok = all(k in member_cats(cats) for k in key)
            else:
                ok = key in member_cats(cats)
            if not ok:
                continue
            al = [a.lower() for a in attrs]
            if key != '' and key in ONLY_REQUIRED.get(cat, ()):
                al = [a for a in al if a in required]
            ent.update(al)
        allowed = {k: v for k, v in allowed.items() if k.lower() in ent}
    elif SP_DECL[decl]:
        decls = {n.lower(): vals for n, _r, vals in SP_DECL[decl]}
        new = {}
        for k, v in allowed.items():
            if k.lower() in decls:
                vals = decls[k.lower()]
                new[k] = [x for x in v if (not vals or x in vals)]
        allowed = new
    r = RESTR[restr]
    if r not in ('ABSENT', None):
        low = {k.lower(): pats for k, pats in r.items()}
        new = {}
        for k, v in allowed.items():
            if k.lower() in low:
                pats = low[k.lower()]
                new[k] = [x for x in v if (pats is None or any(re.match(p, txt(x)) for p in pats))]
        allowed = new
    return allowed


LATE = {'cat': ('at_egov_pvp2',), 'restr': ('regex-each',), 'entry': ('none',), 'decl': ('value-met+empty', 'two-descr-second-bare', 'two-descr-first-bare', 'second-acs-empty'),
        'ident': ('typed-values', 'string-valued', 'shared-values', 'shared-values-reversed', 'pvp'), 'cats': ('rs-as-support', 'coco+rs-as-assurance', 'pvp2', 'pvp2+charge')}


def _norm(c):
    # without a policy section there is nothing to carry restrictions, categories or the fail switch
    if c['entry'] == 'none':
        c = dict(c, restr='absent', cat='absent', fail='absent')
    return c


def cells(thorough):
    return _cells(thorough)


def _cells(thorough):
    out = []
    base = dict(entry='default', restr='names', cat='absent', fail='absent', decl='required+optional', cats='none', ident='full')
    dims = dict(entry=ENTRY, restr=tuple(RESTR), cat=CATS, fail=FAIL, decl=tuple(SP_DECL), cats=tuple(SP_CATS), ident=tuple(IDENTITIES))
    if thorough:
        # complete product over the core alphabets; each value added later (LATE) combined with the complete product of
        # the core values of the other dimensions (fail switch absent), plus every quick-tier cell (all pairs)
        seen = set()
        core = {k: [v for v in dims[k] if v not in LATE.get(k, ())] for k in dims}
        for vals in itertools.product(*[core[k] for k in sorted(dims)]):
            c = dict(zip(sorted(dims), vals))
            seen.add(tuple(sorted(c.items())))
            out.append(c)
        for k, late in LATE.items():
            for v in late:
                others = [x for x in sorted(dims) if x != k]
                for vals in itertools.product(*[(core[x] if x != 'entry' else ('default', 'per-sp')) if x != 'fail' else ('absent',) for x in others]):
                    c = _norm(dict(zip(others, vals), **{k: v}))
                    t = tuple(sorted(c.items()))
                    if t not in seen:
                        seen.add(t)
                        out.append(c)
        for c in _cells(False):
            t = tuple(sorted(c.items()))
            if t not in seen:
                seen.add(t)
                out.append(c)
    else:
        seen = set()
        keys = sorted(dims)
        for a, b, c3 in itertools.combinations(keys, 3) if False else []:
            pass
        for a, b in itertools.combinations(keys, 2):
            for va, vb in itertools.product(dims[a], dims[b]):
                c = dict(base)
                c[a], c[b] = va, vb
                c = _norm(c)
                t = tuple(sorted(c.items()))
                if t not in seen:
                    seen.add(t)
                    out.append(c)
        # unsatisfiable requirements crossed with every policy shape and identity
        for decl, restr, ident, fail, entry in itertools.product(('required-missing', 'value-unmet'), RESTR, IDENTITIES, FAIL, ENTRY):
            c = _norm(dict(base, decl=decl, restr=restr, ident=ident, fail=fail, entry=entry))
            t = tuple(sorted(c.items()))
            if t not in seen:
                seen.add(t)
                out.append(c)
    return out


def evaluate(c):
    from saml2_tophat import saml
    env.Clock.set(env.BASE)
    res = []
    identity = IDENTITIES[c['ident']]
    allowed = permitted(identity, c['restr'], c['cat'], c['decl'], c['cats'])
    for role in ('idp', 'aa', 'aa+query', 'idp@md'):
        if role == 'idp@md' and c['entry'] != 'default':
            continue            # (the rendered-metadata state is about the configuration context, one entry kind suffices)
        srv = server(c['entry'], c['restr'], c['cat'], c['fail'], c['decl'], c['cats'], role.split('+')[0])
        ident_copy = {k: (v if isinstance(v, str) else list(v)) for k, v in identity.items()}
        nid = saml.NameID(text='subject-1', format=saml.NAMEID_FORMAT_TRANSIENT)
        try:
            if role in ('idp', 'idp@md'):
                r = srv.create_authn_response(ident_copy, 'req1', ACS_POST, SP_X, name_id=nid, authn={'class_ref': forge.PASSWORD})
            elif role == 'aa':
                r = srv.create_attribute_response(ident_copy, 'req1', ACS_POST, SP_X, name_id=nid)
            else:
                # the query names attributes itself: that can only narrow what the policy allows
                q = [saml.Attribute(name=OID.get(n, n), name_format=saml.NAME_FORMAT_URI, friendly_name=n) for n in QUERY]
                r = srv.create_attribute_response(ident_copy, 'req1', ACS_POST, SP_X, name_id=nid, attributes=q)
            ok, rel = released(str(r))
            bad = []
            for name, vals in rel.items():
                key = None
                for k in identity:
                    if k == name or k.lower() == name.lower():
                        key = k
                if key is None:
                    # name converted to/from an OID by the converters: map back through the OID table
                    for k in identity:
                        if OID.get(k) == name or OID.get(k.lower()) == name:
                            key = k
                if key is None:
                    bad.append(('released-attribute-not-in-identity', name))
                    continue
                for v in vals:
                    if v not in as_list(identity[key]):
                        bad.append(('released-value-not-in-identity', name))
                    elif key not in allowed or v not in allowed[key]:
                        bad.append(('released-beyond-policy', name))
            res.append({'role': role, 'outcome': 'success' if ok else 'error-response', 'released': sorted(rel), 'bad': sorted(set(bad))})
        except Exception as e:
            res.append({'role': role, 'outcome': 'exception:%s' % type(e).__name__, 'released': [], 'bad': []})
    return res


SEQ_IDENT = {'mail': ['alice@example.org'], 'displayName': ['Alice'], 'eduPersonPrincipalName': ['alice@example.org'],
             'eduPersonTargetedID': ['tid-1'], 'secret': ['S3CR3T-VALUE']}
SEQ_REQ = {'big': ('mail', 'displayName', 'eduPersonPrincipalName'), 'small': ('mail',), 'none': ()}


def seq_cells():
    out = []
    for cat in ('edugain', 'refeds', 'swamid'):
        for first, second in itertools.permutations(SEQ_REQ, 2):
            for restr in ('absent', 'names'):
                out.append(dict(seq=True, cat=cat, first=first, second=second, restr=restr))
    return out


def evaluate_seq(c):
    """One long-lived Server, two SPs of the same entity categories with different required lists, served in turn:
    what the second one gets must not depend on what the first one required."""
    from saml2_tophat import saml
    env.Clock.set(env.BASE)
    cats = {'edugain': COCO, 'refeds': RS, 'swamid': RS}[c['cat']]

    def mdfor(eid, req):
        extra = ('<md:Extensions><mdattr:EntityAttributes xmlns:mdattr="urn:oasis:names:tc:SAML:metadata:attribute">'
                 '<saml:Attribute xmlns:saml="urn:oasis:names:tc:SAML:2.0:assertion" Name="http://macedir.org/entity-category" '
                 'NameFormat="urn:oasis:names:tc:SAML:2.0:attrname-format:uri"><saml:AttributeValue>%s</saml:AttributeValue>'
                 '</saml:Attribute></mdattr:EntityAttributes></md:Extensions>' % cats)
        return world.sp_md(eid, keys=(('spX', 'signing'),), requested=tuple((OID[n], n, True, ()) for n in SEQ_REQ[req]), extra=extra,
                           acs=((ACS_POST if eid == SP_X else 'https://spy.example/acs', world.BINDING_HTTP_POST, 0),))
    pol = {'default': {'entity_categories': [c['cat']], 'fail_on_missing_requested': False}}
    if c['restr'] == 'names':
        pol['default']['attribute_restrictions'] = {'mail': None, 'displayName': None, 'eduPersonPrincipalName': None, 'eduPersonTargetedID': None}
    srv = world.make_idp(TMP[0], [mdfor(SP_X, c['first']), mdfor(world.SP_Y, c['second'])], policy=pol)
    res = []
    for eid, req in ((SP_X, c['first']), (world.SP_Y, c['second'])):
        r = srv.create_authn_response({k: list(v) for k, v in SEQ_IDENT.items()}, 'req1', ACS_POST if eid == SP_X else 'https://spy.example/acs', eid,
                                      name_id=saml.NameID(text='s', format=saml.NAMEID_FORMAT_TRANSIENT), authn={'class_ref': forge.PASSWORD})
        ok, rel = released(str(r))
        table = CAT_TABLE[c['cat']]
        ent = set(a.lower() for a in table[''])
        al = [a.lower() for a in table[cats]]
        if cats in ONLY_REQUIRED.get(c['cat'], ()):
            al = [a for a in al if a in [n.lower() for n in SEQ_REQ[req]]]
        ent.update(al)
        bad = sorted(n for n in rel if n.lower() not in ent or n == 'secret')
        res.append({'sp': eid, 'released': sorted(rel), 'bad': bad})
    return res


def evaluate_reload(c):
    """One long-lived Server; the SP's metadata source is loaded again under the same key after the SP changed what it
    declares: the next response follows the declaration the store now holds."""
    import os
    from saml2_tophat import saml
    first, second, role = c
    env.Clock.set(env.BASE)
    d = os.path.join(TMP[0], 'reload-%d-%s-%s-%s' % (os.getpid(), first, second, role))
    os.makedirs(d, exist_ok=True)
    srv = server_in(d, first, role)
    path = world.write_md(d, sp_metadata(first, 'none'))
    assert path in srv.metadata.metadata
    nid = saml.NameID(text='subject-1', format=saml.NAMEID_FORMAT_TRANSIENT)

    def ask():
        ident = {k: list(v) for k, v in FULL.items()}
        if role == 'idp':
            r = srv.create_authn_response(ident, 'req1', ACS_POST, SP_X, name_id=nid, authn={'class_ref': forge.PASSWORD})
        else:
            r = srv.create_attribute_response(ident, 'req1', ACS_POST, SP_X, name_id=nid)
        return released(str(r))[1]
    try:
        ask()
        with open(path, 'w', encoding='utf-8') as f:
            f.write(sp_metadata(second, 'none'))
        srv.metadata.load('local', path)
        rel = ask()
    except Exception as e:
        return c, [], 'exception:%s' % type(e).__name__
    allowed = permitted(FULL, 'absent', 'absent', second, 'none')
    bad = sorted(n for n, vals in rel.items() if n not in allowed or any(v not in allowed[n] for v in vals))
    return c, bad, None


def server_in(d, decl, role):
    pol = {'default': {'fail_on_missing_requested': False}}
    if role == 'idp':
        return world.make_idp(d, [sp_metadata(decl, 'none')], policy=pol)
    from saml2_tophat.config import Config
    from saml2_tophat.server import Server
    conf = world.idp_config(d, [sp_metadata(decl, 'none')], policy=pol)
    aa = conf['service'].pop('idp')
    aa['endpoints'] = {'attribute_service': [('https://idpa.example/aa', world.BINDING_SOAP)]}
    conf['service']['aa'] = aa
    c = Config()
    c.load(conf, metadata_construction=False)
    c.context = 'aa'
    return Server(config=c)


def run(ctx):
    TMP[0] = ctx.tmp
    rl = [(a, b, role) for a, b in (('required+optional', 'required-subset'), ('required+optional', 'optional-only'), ('none', 'required-subset'),
                                     ('value-met', 'value-unmet'), ('required-subset', 'required+optional')) for role in ('idp', 'aa')]
    for c, bad, problem in ctx.pmap(evaluate_reload, rl, chunksize=1):
        for name in bad:
            ctx.violation({'kind': 'released-beyond-policy', 'attribute': name, 'reload': list(c[:2]), 'role': c[2], 'entry': 'default'}, {})
    sq = seq_cells()
    sres = ctx.pmap(evaluate_seq, sq, chunksize=2)
    for c, outs in zip(sq, sres):
        for o in outs:
            for name in o['bad']:
                ctx.violation(dict(c, kind='released-beyond-policy', attribute=name, sp=o['sp'], role='idp'), {'released': o['released']})
    cs = cells(ctx.thorough)
    res = ctx.pmap(evaluate, cs, chunksize=8)
    ctx.recheck(evaluate, cs, res, n=16)
    n = 0
    hist = {}
    nontriv = set()
    for c, outs in zip(cs, res):
        for o in outs:
            n += 1
            hist[o['outcome']] = hist.get(o['outcome'], 0) + 1
            ident = IDENTITIES[c['ident']]
            allowed = permitted(ident, c['restr'], c['cat'], c['decl'], c['cats'])
            if any(k not in allowed or allowed[k] != as_list(ident[k]) for k in ident):
                nontriv.add((tuple(sorted(c.items())), o['role']))
            for kind, name in o['bad']:
                key = dict(c)
                key.update({'kind': kind, 'attribute': name, 'role': o['role'], 'outcome': o['outcome'],
                            'requirement_unmet': c['decl'] in ('required-missing', 'value-unmet') or (c['decl'] in ('required+optional', 'value-met', 'required-subset') and c['ident'] not in ('full',))})
                ctx.violation(key, {'released': o['released']})
    i0 = len(cs) // 2
    return {
        'level': 'exploration',
        'coverage': {
            'evaluations': n + 2 * len(sq), 'distinct_nontrivial': len(nontriv), 'exhaustive': True, 'two_sp_sequences': len(sq),
            'rule': 'two SPs of the same entity category with different required lists served in turn by one Server (all ordered pairs x 3 category policies x 2 restriction settings); %s over: identity (6, incl. case variants, multi-valued, non-ASCII, a "secret" attribute no policy names) x policy entry (default / per-SP / per-SP entry falling back to default) x attribute_restrictions (absent, None, names, regex, regex matching nothing, two overlapping regexes) x entity_categories (absent, refeds, swamid, edugain) x fail_on_missing_requested (absent, True, False) x SP declaration (none, required subset, required missing, required+optional, value constraint met/unmet, optional only, optional absent) x SP entity categories (none, R&S, CoCo, half/full swamid tuple, half tuple listed twice); each case through create_authn_response, create_attribute_response and create_attribute_response with the attributes an AttributeQuery names, and create_authn_response of an idp+aa entity after its metadata was rendered from the configuration object; values added later - no policy section at all, declarations in one of two SPSSODescriptors / with an empty AttributeValue, identities with non-text and plain-string values, category URIs under other entity-attribute names - each combined with the complete product of the core values of the other dimensions (thorough) or pairwise (quick); non-trivial = the reference filter removes something' % ('complete product of the core alphabets' if ctx.thorough else 'all pairs of dimensions from a base case + unsatisfiable requirements x every policy shape'),
            'samples': [{'case': cs[i0], 'outcomes': res[i0]}], 'distinct_outcomes': len(hist), 'outcome_histogram': hist,
        },
        'assumptions': ['the entity-category tables are data: the oracle carries an independent copy',
                        'attribute names are matched case-insensitively / through the OID table, as the documented name mapping does'],
    }


def replay(ctx, w):
    TMP[0] = ctx.tmp
    if w.get('seq'):
        outs = evaluate_seq({k: w[k] for k in ('seq', 'cat', 'first', 'second', 'restr')})
        return {'violation': any(o['bad'] for o in outs), 'observed': outs}
    c = {k: w[k] for k in ('entry', 'restr', 'cat', 'fail', 'decl', 'cats', 'ident')}
    outs = evaluate(c)
    return {'violation': any(o['bad'] for o in outs if o['role'] == w['role']), 'observed': outs}
