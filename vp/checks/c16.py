"""C16 - the metadata store serves exactly what valid, unexpired metadata declares.

Product over forged federation document sets loaded through the real MetadataStore under the virtual clock; every
query tuple is compared with an independent reference computed from the generating specification."""
import itertools
import os

from vp import env, world, forge, xmlsec
from vp.world import BINDING_HTTP_POST as POST, BINDING_HTTP_REDIRECT as REDIR, BINDING_SOAP as SOAP, BINDING_ARTIFACT as ART

TMP = [None]
MDNS = world.MD
PROTO2 = world.PROTO
PROTO1 = 'urn:oasis:names:tc:SAML:1.1:protocol'
ROLE_TAG = {'idpsso': 'IDPSSODescriptor', 'spsso': 'SPSSODescriptor', 'attribute_authority': 'AttributeAuthorityDescriptor',
            'authn_authority': 'AuthnAuthorityDescriptor', 'pdp': 'PDPDescriptor'}
SERVICE_TAG = {'single_sign_on_service': 'SingleSignOnService', 'single_logout_service': 'SingleLogoutService',
               'assertion_consumer_service': 'AssertionConsumerService', 'attribute_service': 'AttributeService',
               'authn_query_service': 'AuthnQueryService', 'authz_service': 'AuthzService',
               'name_id_mapping_service': 'NameIDMappingService', 'manage_name_id_service': 'ManageNameIDService',
               'artifact_resolution_service': 'ArtifactResolutionService'}
# schema order of the services inside each role
ROLE_SERVICES = {'idpsso': ['artifact_resolution_service', 'single_logout_service', 'manage_name_id_service', 'single_sign_on_service', 'name_id_mapping_service'],
                 'spsso': ['artifact_resolution_service', 'single_logout_service', 'manage_name_id_service', 'assertion_consumer_service'],
                 'attribute_authority': ['attribute_service'], 'authn_authority': ['authn_query_service'], 'pdp': ['authz_service']}
RS = 'http://refeds.org/category/research-and-scholarship'
COCO = 'http://www.geant.net/uri/dataprotection-code-of-conduct/v1'
OID = {'givenName': 'urn:oid:2.5.4.42', 'title': 'urn:oid:2.5.4.12', 'mail': 'urn:oid:0.9.2342.19200300.100.1.3'}


def is_past(kind):
    return str(kind).startswith('past')


def vu(kind):
    """validUntil one hour before / after now; an optional suffix selects the spelling: '.7' seven fraction digits,
    '+01:00' / '-11:00' the same instant written in another zone."""
    if kind is None:
        return None
    t = env.BASE + (-3600 if is_past(kind) else 3600)
    sfx = kind[4:] if is_past(kind) else kind[6:]
    if sfx == '.7':
        return forge.ts(t, 'none') + '.1444737Z'
    if sfx:
        return forge.ts(t, sfx)
    return forge.ts(t)


def role_xml(role, r):
    proto = {'saml2': PROTO2, 'saml1': PROTO1, 'both': PROTO1 + ' ' + PROTO2}[r.get('proto', 'saml2')]
    kd = ''.join(world.key_descriptor(n, u) for n, u in r.get('keys', ()))
    s = ''
    for svc in ROLE_SERVICES[role]:
        for t in r.get('endpoints', {}).get(svc, ()):
            b, loc = t[0], t[1]
            idx = '' if len(t) < 3 or t[2] is None else ' index="%s"' % t[2]
            s += '<md:%s Binding="%s" Location="%s"%s/>' % (SERVICE_TAG[svc], b, loc, idx)
    if role == 'spsso' and r.get('requested'):
        ra = ''.join('<md:RequestedAttribute Name="%s" NameFormat="urn:oasis:names:tc:SAML:2.0:attrname-format:uri" FriendlyName="%s"%s/>'
                     % (OID[n], n, (' isRequired="%s"' % ('true' if req is True else req)) if req else '') for n, req in r['requested'])
        s += '<md:AttributeConsumingService index="0"><md:ServiceName xml:lang="en">x</md:ServiceName>%s</md:AttributeConsumingService>' % ra
    return '<md:%s protocolSupportEnumeration="%s">%s%s</md:%s>' % (ROLE_TAG[role], proto, kd, s, ROLE_TAG[role])


def is_req(r):
    # xs:boolean: 'true' and '1' are true
    return r is True or r in ('true', '1')


def entity_xml(e, standalone=True):
    ext = ''
    if e.get('categories'):
        ext = '<md:Extensions>'
        for group in e.get('category_elements') or [e['categories']]:
            vals = ''.join('<saml:AttributeValue>%s</saml:AttributeValue>' % c for c in group)
            ext += ('<mdattr:EntityAttributes xmlns:mdattr="urn:oasis:names:tc:SAML:metadata:attribute">'
                    '<saml:Attribute xmlns:saml="urn:oasis:names:tc:SAML:2.0:assertion" Name="http://macedir.org/entity-category" '
                    'NameFormat="urn:oasis:names:tc:SAML:2.0:attrname-format:uri">%s</saml:Attribute></mdattr:EntityAttributes>' % vals)
        ext += '</md:Extensions>'
    v = vu(e.get('valid_until'))
    order = ['idpsso', 'spsso', 'authn_authority', 'attribute_authority', 'pdp']
    roles = ''.join(role_xml(r, e['roles'][r]) for r in order if r in e['roles'])
    if e.get('extra_descriptor'):
        pos, xml = e['extra_descriptor']
        roles = xml + roles if pos == 'before' else roles + xml
    return '<md:EntityDescriptor%s entityID="%s"%s>%s%s</md:EntityDescriptor>' % (
        ' xmlns:md="%s"' % MDNS if standalone else '', e['id'], ' validUntil="%s"' % v if v else '', ext, roles)


def doc_xml(d):
    x = _doc_xml(d)
    pfx = d.get('prefix')
    if pfx == '':
        # the metadata namespace as default namespace
        x = x.replace('<md:', '<').replace('</md:', '</').replace('xmlns:md=', 'xmlns=')
    elif pfx:
        x = x.replace('<md:', '<%s:' % pfx).replace('</md:', '</%s:' % pfx).replace('xmlns:md=', 'xmlns:%s=' % pfx)
    if d.get('prolog'):
        x = d['prolog'] + x
    return x


def _doc_xml(d):
    if d['kind'] == 'single':
        return entity_xml(d['entities'][0])
    v = vu(d.get('valid_until'))
    ents = [entity_xml(e, False) for e in d['entities']]
    if d.get('nested'):
        k = d['nested']
        nv = vu(d.get('nested_valid_until'))
        inner = ''.join(ents[:k])
        if d.get('nested_deep'):
            # one more level: the dated group holds an undated group that holds the entities
            inner = '<md:EntitiesDescriptor Name="urn:vp:subgroup">%s</md:EntitiesDescriptor>' % inner
        ents = ['<md:EntitiesDescriptor Name="urn:vp:group"%s>%s</md:EntitiesDescriptor>' % (' validUntil="%s"' % nv if nv else '', inner)] + ents[k:]
    return '<md:EntitiesDescriptor xmlns:md="%s"%s>%s</md:EntitiesDescriptor>' % (
        MDNS, ' validUntil="%s"' % v if v else '', ''.join(ents))


# ------------------------------------------------------------- entity alphabet

def E(name, variant=0):
    """Entity specifications; `variant` changes the content for duplicate-entityID tests."""
    sfx = '' if not variant else '/v%d' % variant
    if name == 'idpA':
        return {'id': 'urn:vp:idpA', 'roles': {'idpsso': {'keys': [('idpA' if not variant else 'idpA2', 'signing'), ('idpAenc', 'encryption')],
                'endpoints': {'single_sign_on_service': [(REDIR, 'https://idpa.example/sso' + sfx), (POST, 'https://idpa.example/sso/post' + sfx)],
                              'single_logout_service': [(SOAP, 'https://idpa.example/slo' + sfx)]}}}}
    if name == 'spX2':
        # entity categories spread over two EntityAttributes elements with the same attribute Name
        d = E('spX')
        d['categories'] = [RS, COCO]
        d['category_elements'] = [[RS], [COCO]]
        return d
    if name == 'spX-req1':
        # isRequired written with the other literals of xs:boolean
        d = E('spX')
        d['roles']['spsso']['requested'] = [('givenName', '1'), ('title', '0'), ('mail', 'true')]
        return d
    if name in ('idpA+saml1-before', 'idpA+saml1-after'):
        # a second descriptor of the same role that only speaks SAML 1.1: nothing of it belongs to a SAML 2 lookup
        d = E('idpA')
        d['extra_descriptor'] = (name.rsplit('-', 1)[1], '<md:IDPSSODescriptor protocolSupportEnumeration="%s">%s'
                                 '<md:SingleSignOnService Binding="%s" Location="https://idpa.example/saml1/sso"/>'
                                 '<md:SingleSignOnService Binding="%s" Location="https://idpa.example/saml1/post"/></md:IDPSSODescriptor>'
                                 % (PROTO1, world.key_descriptor('idpB', 'signing'), REDIR, POST))
        return d
    if name == 'idpA-chain':
        d = E('idpA')
        d['roles']['idpsso']['keys'] = [('idpA|idpB', 'signing'), ('idpAenc', 'encryption')]
        return d
    if name == 'spX':
        return {'id': 'urn:vp:spX', 'categories': [RS], 'roles': {'spsso': {'keys': [('spX', 'signing'), ('spXenc1', 'encryption')],
                'endpoints': {'assertion_consumer_service': [(POST, 'https://spx.example/acs/post', 0), (REDIR, 'https://spx.example/acs/redirect', 1)],
                              'single_logout_service': [(SOAP, 'https://spx.example/slo')]},
                'requested': [('givenName', True), ('title', False)]}}}
    if name == 'aa':
        return {'id': 'urn:vp:aa', 'roles': {'attribute_authority': {'keys': [('idpB', None)],
                'endpoints': {'attribute_service': [(SOAP, 'https://aa.example/attr')]}}}}
    if name.startswith('expired'):
        return {'id': 'urn:vp:expired', 'valid_until': 'past' + name[7:], 'roles': {'idpsso': {'keys': [('idpB', 'signing')],
                'endpoints': {'single_sign_on_service': [(REDIR, 'https://old.example/sso')]}}}}
    if name.startswith('fresh'):
        return {'id': 'urn:vp:fresh', 'valid_until': 'future' + name[5:], 'roles': {'idpsso': {'keys': [('idpB', 'signing')],
                'endpoints': {'single_sign_on_service': [(REDIR, 'https://fresh.example/sso')]}}}}
    if name == 'saml1':
        return {'id': 'urn:vp:saml1', 'roles': {'idpsso': {'proto': 'saml1', 'keys': [('idpB', 'signing')],
                'endpoints': {'single_sign_on_service': [(REDIR, 'https://saml1.example/sso')]}}}}
    if name == 'dual':
        return {'id': 'urn:vp:dual', 'roles': {
            'idpsso': {'proto': 'both', 'keys': [('idpB', 'signing')], 'endpoints': {'single_sign_on_service': [(POST, 'https://dual.example/sso')],
                                                                                 'single_logout_service': [(REDIR, 'https://dual.example/idp-slo')]}},
            'spsso': {'keys': [('spY', 'signing'), ('spXenc2', 'encryption')],
                      'endpoints': {'assertion_consumer_service': [(POST, 'https://dual.example/acs', 0)],
                                    'single_logout_service': [(SOAP, 'https://dual.example/sp-slo')]}},
            'pdp': {'keys': [], 'endpoints': {'authz_service': [(SOAP, 'https://dual.example/authz')]}}}}
    raise KeyError(name)


ALL_IDS = ['urn:vp:idpA', 'urn:vp:spX', 'urn:vp:aa', 'urn:vp:expired', 'urn:vp:fresh', 'urn:vp:saml1', 'urn:vp:dual', 'urn:vp:nobody',
           # near misses of identifiers that exist (prefix, longer, other case, surrounding blank): all unknown
           'urn:vp:idp', 'urn:vp:idpAx', 'URN:VP:IDPA', 'urn:vp:idpA ', ' urn:vp:spX']


def federations(thorough):
    """List of (name, [documents]) - each document {'kind','entities','valid_until'}."""
    F = []
    names = ['idpA', 'spX', 'aa', 'expired', 'fresh', 'saml1', 'dual']
    # every single entity alone; as EntityDescriptor and inside an EntitiesDescriptor with each validUntil
    for n in names:
        F.append(('single:' + n, [{'kind': 'single', 'entities': [E(n)]}]))
        for v in (None, 'past', 'future'):
            F.append(('wrapped:%s:%s' % (n, v), [{'kind': 'multi', 'valid_until': v, 'entities': [E(n)]}]))
    # other spellings of validUntil (seven fraction digits, other zones), and categories over two elements
    # (numeric zones are not generated: SAML core 1.3.3 requires the UTC form, such metadata is not valid metadata)
    for sp_ in ('.7',):
        F.append(('single:expired' + sp_, [{'kind': 'single', 'entities': [E('expired' + sp_)]}]))
        F.append(('single:fresh' + sp_, [{'kind': 'single', 'entities': [E('fresh' + sp_)]}]))
        F.append(('multi:expired%s+fresh%s+idpA' % (sp_, sp_), [{'kind': 'multi', 'entities': [E('expired' + sp_), E('fresh' + sp_), E('idpA')]}]))
        for v in ('past' + sp_, 'future' + sp_):
            F.append(('wrapped:idpA+spX:%s' % v, [{'kind': 'multi', 'valid_until': v, 'entities': [E('idpA'), E('spX')]}]))
    F.append(('single:spX2', [{'kind': 'single', 'entities': [E('spX2')]}]))
    for nm in ('spX-req1', 'idpA+saml1-before', 'idpA+saml1-after', 'idpA-chain'):
        F.append(('single:' + nm, [{'kind': 'single', 'entities': [E(nm)]}]))
        F.append(('multi:%s+aa' % nm, [{'kind': 'multi', 'entities': [E(nm), E('aa')]}]))
    # entities inside a nested group of an aggregate
    for v in (None, 'past', 'future'):
        F.append(('nested:idpA+spX|aa:%s' % v, [{'kind': 'multi', 'entities': [E('idpA'), E('spX'), E('aa')], 'nested': 2, 'nested_valid_until': v}]))
        F.append(('nested-deep:idpA+spX|aa:%s' % v, [{'kind': 'multi', 'entities': [E('idpA'), E('spX'), E('aa')], 'nested': 2, 'nested_valid_until': v, 'nested_deep': True}]))
    F.append(('multi:spX2+idpA', [{'kind': 'multi', 'entities': [E('spX2'), E('idpA')]}]))
    # pairs and triples in one document
    for k in (2, 3):
        for combo in itertools.combinations(names, k):
            if not thorough and k == 3 and 'dual' not in combo:
                continue
            F.append(('multi:' + '+'.join(combo), [{'kind': 'multi', 'entities': [E(n) for n in combo]}]))
    # two sources: disjoint, and duplicates with different content, both orders
    for a, b in itertools.permutations(names, 2):
        if not thorough and not ({a, b} & {'idpA', 'dual', 'expired'}):
            continue
        F.append(('two:%s|%s' % (a, b), [{'kind': 'single', 'entities': [E(a)]}, {'kind': 'single', 'entities': [E(b)]}]))
    F.append(('dup:idpA|idpA-v1', [{'kind': 'single', 'entities': [E('idpA')]}, {'kind': 'single', 'entities': [E('idpA', 1)]}]))
    F.append(('dup:idpA-v1|idpA', [{'kind': 'single', 'entities': [E('idpA', 1)]}, {'kind': 'single', 'entities': [E('idpA')]}]))
    F.append(('dup+extra:idpA|idpA-v1+spX', [{'kind': 'single', 'entities': [E('idpA')]}, {'kind': 'multi', 'entities': [E('idpA', 1), E('spX')]}]))
    F.append(('dup+extra:idpA-v1+aa|idpA', [{'kind': 'multi', 'entities': [E('idpA', 1), E('aa')]}, {'kind': 'single', 'entities': [E('idpA')]}]))
    F.append(('dup-in-doc:idpA+idpA-v1', [{'kind': 'multi', 'entities': [E('idpA'), E('idpA', 1)]}]))
    F.append(('known-elsewhere:spX|idpA+aa', [{'kind': 'single', 'entities': [E('spX')]}, {'kind': 'multi', 'entities': [E('idpA'), E('aa')]}]))
    F.append(('expired-doc-then-good', [{'kind': 'multi', 'valid_until': 'past', 'entities': [E('idpA', 1)]}, {'kind': 'single', 'entities': [E('idpA')]}]))
    # a remote source that opted out of validity checking, followed by sources holding expired metadata
    rem = {'kind': 'single', 'entities': [E('spX')], 'via': 'remote', 'check_validity': False}
    F.append(('remote-novalidity|expired', [rem, {'kind': 'single', 'entities': [E('expired')]}]))
    F.append(('remote-novalidity|expired-doc', [rem, {'kind': 'multi', 'valid_until': 'past', 'entities': [E('idpA', 1)]}]))
    F.append(('remote-novalidity|expired+idpA', [rem, {'kind': 'multi', 'entities': [E('expired'), E('idpA')]}]))
    F.append(('remote-default-expired', [{'kind': 'multi', 'entities': [E('expired'), E('fresh')], 'via': 'remote'}]))
    F.append(('expired|remote-novalidity', [{'kind': 'single', 'entities': [E('expired')]}, rem]))
    # other (legal) namespace prefixes of the metadata namespace, a prolog in front of the document element
    for pfx in ('saml-md', 'md.fed', 'm\u00e9ta', 'md2', '', '_'):
        F.append(('prefix:%r:multi:idpA+spX' % pfx, [{'kind': 'multi', 'entities': [E('idpA'), E('spX')], 'prefix': pfx}]))
        F.append(('prefix:%r:single:idpA' % pfx, [{'kind': 'single', 'entities': [E('idpA')], 'prefix': pfx}]))
    for pl in ('<?xml version="1.0" encoding="UTF-8"?>\n<!-- <md:EntityDescriptor> -->\n', '<!--x--><?pi <EntityDescriptor ?>\n'):
        F.append(('prolog:multi:idpA+spX:%d' % len(pl), [{'kind': 'multi', 'entities': [E('idpA'), E('spX')], 'prolog': pl}]))
    # a source loaded again under the same key after its document changed: what the *current* documents declare
    for first, then in ((E('idpA'), E('idpA', 1)), (E('idpA', 1), E('idpA')), (E('idpA'), E('spX')), (E('fresh'), E('expired'))):
        F.append(('reload:%s->%s' % (first['id'], then['id']) + (':v' if first['id'] == then['id'] else ''),
                  [{'kind': 'single', 'entities': [first], 'then': {'kind': 'single', 'entities': [then]}}]))
    F.append(('reload:multi:idpA+spX->idpA-v1', [{'kind': 'multi', 'entities': [E('idpA'), E('spX')],
                                                  'then': {'kind': 'multi', 'entities': [E('idpA', 1)]}}, {'kind': 'single', 'entities': [E('aa')]}]))
    if thorough:
        for a, b, c in itertools.permutations(['idpA', 'spX', 'dual', 'expired'], 3):
            F.append(('three:%s|%s|%s' % (a, b, c), [{'kind': 'single', 'entities': [E(x)]} for x in (a, b, c)]))
    return F


def served_candidates(docs, eid):
    """Specifications of `eid` that a conforming store may serve (one per source, unmixed)."""
    out = []
    for d in docs:
        if d['kind'] == 'multi' and is_past(d.get('valid_until')):
            continue
        seen_in_doc = False
        for pos, e in enumerate(d['entities']):
            if e['id'] != eid or is_past(e.get('valid_until')):
                continue
            if d.get('nested') and pos < d['nested'] and is_past(d.get('nested_valid_until')):
                continue            # inside a nested group whose own validUntil has passed
            roles = {r: s for r, s in e['roles'].items() if s.get('proto', 'saml2') in ('saml2', 'both')}
            if not roles:
                continue
            if seen_in_doc:
                continue
            seen_in_doc = True
            out.append(dict(e, roles=roles))
    return out


def build_store(docs):
    from saml2_tophat.mdstore import MetadataStore
    from saml2_tophat.attribute_converter import ac_factory
    from saml2_tophat import saml, samlp
    from saml2_tophat.config import Config
    conf = Config()
    conf.xmlsec_binary = world.XMLSEC
    mds = MetadataStore(ac_factory(), conf)
    err = None

    class _Resp(object):
        def __init__(self, body):
            self.status_code = 200
            self.content = body.encode('utf-8')
            self.text = body

    class _Http(object):
        def __init__(self):
            self.pages = {}

        def send(self, url, *a, **k):
            return _Resp(self.pages[url])
    mds.http = _Http()
    for i, d in enumerate(docs):
        p = world.write_md(TMP[0], doc_xml(d))
        try:
            if d.get('via') == 'remote':
                url = 'https://md.example/%d' % i
                mds.http.pages[url] = doc_xml(d)
                kw = {'url': url}
                if 'check_validity' in d:
                    kw['check_validity'] = d['check_validity']
                mds.load('remote', **kw)
            elif d.get('then'):
                import os
                q = os.path.join(TMP[0], 'reload-%d-%d.xml' % (os.getpid(), i))      # a file of this evaluation alone
                with open(q, 'w', encoding='utf-8') as f:
                    f.write(doc_xml(d))
                try:
                    mds.load('local', q)
                    with open(q, 'w', encoding='utf-8') as f:
                        f.write(doc_xml(d['then']))
                    mds.load('local', q)
                finally:
                    os.unlink(q)
            else:
                mds.load('local', p)
        except Exception as e:
            err = type(e).__name__
            if not (d['kind'] == 'multi' and is_past(d.get('valid_until'))):
                raise
    return mds, err


QUERIES = [('idpsso', 'single_sign_on_service'), ('idpsso', 'single_logout_service'), ('spsso', 'assertion_consumer_service'),
           ('spsso', 'single_logout_service'), ('attribute_authority', 'attribute_service'), ('pdp', 'authz_service'),
           ('idpsso', 'name_id_mapping_service')]
BINDINGS = [POST, REDIR, SOAP, ART, None]


def norm_endpoints(res):
    if isinstance(res, dict):
        items = [x for v in res.values() for x in v]
    else:
        items = list(res or [])
    return sorted((x.get('binding'), x.get('location'), x.get('index')) for x in items)


def expected_endpoints(spec, typ, svc, binding):
    r = spec['roles'].get(typ)
    if r is None:
        return None
    eps = [(t[0], t[1], (str(t[2]) if len(t) > 2 and t[2] is not None else None)) for t in r.get('endpoints', {}).get(svc, ())]
    if binding:
        eps = [t for t in eps if t[0] == binding]
    return sorted(eps)


def evaluate(fed):
    with env.in_zone(env.zone_of(fed[0])):
        return _evaluate(fed)


def _evaluate(fed):
    from saml2_tophat.mdstore import UnknownSystemEntity
    from saml2_tophat.s_utils import UnsupportedBinding
    name, docs = fed
    env.Clock.set(env.BASE)
    bad = []
    n = 0
    try:
        mds, load_err = build_store(docs)
    except Exception as e:
        return name, 0, [('load-raised', type(e).__name__, None)]
    docs = [d.get('then', d) for d in docs]        # the oracle looks at what the sources hold now
    compat = {}     # (pass, eid) -> set of candidate indexes every data answer so far is compatible with

    def narrow(pas, eid, ok_idx):
        k = (pas, eid)
        compat[k] = compat.get(k, set(range(8))) & set(ok_idx)

    for pas, eid in [(0, e) for e in ALL_IDS] + [(1, e) for e in reversed(ALL_IDS)]:
        cands = served_candidates(docs, eid)
        for typ, svc in QUERIES:
            for b in BINDINGS:
                n += 1
                try:
                    res = mds.service(eid, typ + '_descriptor', svc, b)
                    got = ('data', norm_endpoints(res))
                except UnknownSystemEntity:
                    got = ('unknown',)
                except UnsupportedBinding:
                    got = ('unsupported',)
                except Exception as e:
                    got = ('exc', type(e).__name__)
                q = [eid, typ, svc, b and b.rsplit(':', 1)[1]]
                if not cands:
                    if got[0] == 'data' and got[1]:
                        bad.append(('data-for-unknown-or-expired-entity', q, got[1][:2]))
                    elif got[0] == 'unsupported':
                        bad.append(('unknown-entity-reported-as-unsupported-binding', q, None))
                    continue
                exps = [expected_endpoints(c, typ, svc, b) for c in cands]
                if got[0] == 'data':
                    if got[1] and got[1] not in [x for x in exps if x]:
                        bad.append(('endpoints-differ-from-declared', q, got[1][:3]))
                    elif got[1]:
                        narrow(pas, eid, [i for i, x in enumerate(exps) if x == got[1]])
                    continue
                # no data returned: fine unless some candidate declares endpoints and none of the candidates is empty
                declares = [x for x in exps if x]
                if declares and len(declares) == len(exps):
                    bad.append(('declared-endpoints-not-served', q, got))
                    continue
                if got[0] == 'unknown':
                    # known entity WITH this role and service but lacking the binding must be told apart
                    role_has_service = [c for c in cands if typ in c['roles'] and c['roles'][typ].get('endpoints', {}).get(svc)]
                    if b and role_has_service and len(role_has_service) == len(cands):
                        bad.append(('known-entity-lacking-binding-reported-as-unknown', q, None))
        # certificates
        for descr in ('idpsso', 'spsso', 'attribute_authority', 'pdp', 'any'):
            for use in ('signing', 'encryption'):
                n += 1
                try:
                    got = sorted(mds.certs(eid, descr, use))
                except Exception as e:
                    got = None
                if got is None:
                    continue
                if not cands:
                    if got:
                        bad.append(('certs-for-unknown-or-expired-entity', [eid, descr, use], len(got)))
                    continue
                okset = []
                for c in cands:
                    roles = list(c['roles']) if descr == 'any' else ([descr] if descr in c['roles'] else [])
                    want = []
                    for r in roles:
                        for kn, ku in c['roles'][r].get('keys', ()):
                            if ku == use or ku is None:
                                for k1 in kn.split('|'):
                                    cb = world.cert_b64(k1)
                                    if cb not in want:
                                        want.append(cb)
                    okset.append(sorted(want))
                norm = sorted(''.join(x.split()) for x in got)
                if norm not in okset:
                    bad.append(('certs-differ-from-declared', [eid, descr, use], len(got)))
                elif norm:
                    narrow(pas, eid, [i for i, x in enumerate(okset) if x == norm])
        # categories and attribute requirements
        n += 2
        try:
            cats = sorted(mds.entity_categories(eid))
        except Exception:
            cats = None
        if cats is not None:
            if not cands and cats:
                bad.append(('categories-for-unknown-entity', [eid], cats))
            elif cands and cats not in [sorted(c.get('categories', [])) for c in cands]:
                bad.append(('entity-categories-differ', [eid], cats))
        try:
            ar = mds.attribute_requirement(eid)
        except Exception:
            ar = None
        if ar:
            got = (sorted(a.get('friendly_name') for a in ar['required']), sorted(a.get('friendly_name') for a in ar['optional']))
            want = []
            for c in cands:
                rq = c['roles'].get('spsso', {}).get('requested', [])
                want.append((sorted(x for x, r in rq if is_req(r)), sorted(x for x, r in rq if not is_req(r))))
            if (got[0] or got[1]) and got not in want:
                bad.append(('attribute-requirement-differs', [eid], got))
    for (pas, eid), ok in compat.items():
        if not ok:
            bad.append(('answers-mixed-from-different-versions-of-the-entity', [eid, 'pass-%d' % pas], None))
    # provider listings
    n += 2
    try:
        idps = sorted(mds.identity_providers())
        want = sorted(e for e in ALL_IDS if any('idpsso' in c['roles'] for c in served_candidates(docs, e)))
        maybe = sorted(e for e in ALL_IDS if served_candidates(docs, e) and all('idpsso' in c['roles'] for c in served_candidates(docs, e)))
        if not (set(maybe) <= set(idps) <= set(want)):
            bad.append(('identity_providers-listing-differs', [], idps))
    except Exception as e:
        bad.append(('identity_providers-raised', [], type(e).__name__))
    # the same for attribute authorities, and the per-entity bindings listing (what service() says, under another name)
    n += 1
    try:
        aas = sorted(mds.attribute_authorities())
        want = sorted(e for e in ALL_IDS if any('attribute_authority' in c['roles'] for c in served_candidates(docs, e)))
        maybe = sorted(e for e in ALL_IDS if served_candidates(docs, e) and all('attribute_authority' in c['roles'] for c in served_candidates(docs, e)))
        if not (set(maybe) <= set(aas) <= set(want)):
            bad.append(('attribute_authorities-listing-differs', [], aas))
    except Exception as e:
        bad.append(('attribute_authorities-raised', [], type(e).__name__))
    for eid in ALL_IDS:
        if not served_candidates(docs, eid):
            continue
        for typ, svc in QUERIES:
            n += 1
            try:
                a = mds.service(eid, typ + '_descriptor', svc)
            except Exception:
                continue
            try:
                b2 = mds.bindings(eid, typ + '_descriptor', svc)
            except Exception as e:
                b2 = 'EXC:%s' % type(e).__name__
            if a and norm_endpoints(b2) != norm_endpoints(a):
                bad.append(('bindings-listing-differs-from-service', [eid, typ, svc], None))
    return name, n, bad


# ------------------------------------------------------------- signed metadata

def signed_cases():
    out = []
    for state in ('unsigned', 'valid', 'content-tampered', 'sigvalue-tampered', 'other-key'):
        for cert in ('absent', 'right', 'wrong'):
            for shape in ('entity', 'entities'):
                out.append((state, cert, shape))
                if cert != 'absent' and state != 'unsigned':
                    # the same through a crypto back end that reports a bad signature by returning False instead of raising
                    out.append((state, cert, shape + '@XMLSecurity'))
    return out


def evaluate_signed(case):
    from saml2_tophat.mdstore import MetaDataFile
    from saml2_tophat.attribute_converter import ac_factory
    state, cert, shape = case
    backend = None
    if shape.endswith('@XMLSecurity'):
        shape, backend = shape.split('@')
    env.Clock.set(env.BASE)
    inner = entity_xml(E('idpA'), standalone=(shape == 'entity'))
    if shape == 'entity':
        x = inner.replace('<md:EntityDescriptor ', '<md:EntityDescriptor ID="MD1" ', 1)
        node = MDNS + ':EntityDescriptor'
    else:
        x = '<md:EntitiesDescriptor xmlns:md="%s" ID="MD1">%s</md:EntitiesDescriptor>' % (MDNS, inner)
        node = MDNS + ':EntitiesDescriptor'
    if state != 'unsigned':
        x = x.replace('>', '>' + forge.sig_template('MD1'), 1)
        x = xmlsec.sign_xml(x, 'MD1', world.priv('mallory' if state == 'other-key' else 'mdsigner'))
        if state == 'content-tampered':
            x = x.replace('https://idpa.example/sso/post', 'https://evil.example/sso/post')
        elif state == 'sigvalue-tampered':
            i = x.index('<ds:SignatureValue>') + 30
            x = x[:i] + ('A' if x[i] != 'A' else 'B') + x[i + 1:]
    p = os.path.join(TMP[0], 'signed-%s-%s-%s-%d.xml' % (state, cert, shape, os.getpid()))
    with open(p, 'w') as f:
        f.write(x)
    if backend:
        from vp import pyxmlsec_model
        pyxmlsec_model.install()
        sec = world.make_sp(TMP[0], top={'crypto_backend': backend}).sec
    else:
        sec = world.make_sp(TMP[0]).sec
    kw = {}
    if cert != 'absent':
        kw = dict(cert=world.crt('mdsigner' if cert == 'right' else 'idpB'), security=sec, node_name=node)
    md = MetaDataFile(ac_factory(), p, **kw)
    try:
        r = md.load()
        raised = None
    except Exception as e:
        r = None
        raised = type(e).__name__
    served = sorted(md.keys()) if raised is None and r is not False else []
    # the source object lives on (a caller may ignore load()'s verdict, or load() again later to refresh): what it
    # holds after a load that did not verify
    try:
        left = sorted(md.keys())
    except Exception:
        left = []
    # "contributes entities only if that signature verifies": a loader configured with a cert and given a signature
    must_not = cert != 'absent' and state != 'unsigned' and not (state == 'valid' and cert == 'right')
    must = (cert == 'right' and state == 'valid') or cert == 'absent' or state == 'unsigned'
    bad = None
    if must_not and served:
        bad = 'entities-served-although-signature-does-not-verify'
    elif must_not and left:
        bad = 'entities-left-in-the-source-although-signature-does-not-verify'
    elif must and cert == 'right' and state == 'valid' and not served:
        bad = 'validly-signed-metadata-not-served:%s' % raised
    elif served and state == 'content-tampered' and cert == 'absent':
        bad = None
    if not bad and cert == 'right' and state == 'valid' and served:
        # refresh of the same source object with a document whose signature does not verify and that names one more entity
        evil = entity_xml(E('spX'), standalone=(shape == 'entity'))
        if shape != 'entity':
            y = x.replace('</md:EntitiesDescriptor>', evil + '</md:EntitiesDescriptor>')
            with open(p, 'w') as f:
                f.write(y)
            try:
                r2 = md.load()
            except Exception:
                r2 = None
            if r2 is not True and 'urn:vp:spX' in sorted(md.keys()):
                bad = 'refresh-that-does-not-verify-added-entities'
    return case, served, r, raised, bad


# ------------------------------------------------------------- round trip

def evaluate_roundtrip(which):
    from saml2_tophat.mdstore import MetadataStore
    from saml2_tophat.attribute_converter import ac_factory
    from saml2_tophat.config import Config
    env.Clock.set(env.BASE)
    want_idx = None
    if which.startswith('sp-indexed'):
        # endpoints configured with explicit integer indexes: 3-tuples, dicts, and an order where index 0 is not first
        from vp.world import ACS_POST, ACS_REDIRECT, ACS_SOAP, BINDING_HTTP_POST as P_, BINDING_HTTP_REDIRECT as R_, BINDING_SOAP as S_
        shape = which.split(':')[1]
        acs = {'tuples': [(ACS_POST, P_, 0), (ACS_REDIRECT, R_, 1), (ACS_SOAP, S_, 2)],
               'zero-last': [(ACS_POST, P_, 2), (ACS_REDIRECT, R_, 1), (ACS_SOAP, S_, 0)],
               'strings': [(ACS_POST, P_, '0'), (ACS_REDIRECT, R_, '1'), (ACS_SOAP, S_, '2')],
               'gaps': [(ACS_POST, P_, 0), (ACS_REDIRECT, R_, 5), (ACS_SOAP, S_, 7)]}[shape]
        want_idx = sorted((b, l, str(i)) for l, b, i in acs)
        enc = ()
        ent = world.make_sp(TMP[0], enc=enc, acs=acs)
        conf = ent.config
        role = 'spsso'
        eps = {'assertion_consumer_service': [(l, b) for l, b, _i in acs]}
        sign = 'spX'
    elif which.startswith('sp'):
        enc = ('spXenc1',) if 'enc' in which else ()
        ent = world.make_sp(TMP[0], enc=enc)
        conf = ent.config
        role = 'spsso'
        eps = {'assertion_consumer_service': conf.getattr('endpoints', 'sp')['assertion_consumer_service'],
               'single_logout_service': conf.getattr('endpoints', 'sp')['single_logout_service']}
        sign = 'spX'
    elif which.startswith('multi-role'):
        # one configuration serving several roles, with encryption key pairs: every role's descriptor carries them
        from saml2_tophat.config import Config as _Cfg
        usage = which.split(':')[1]
        enc_key = 'spXenc1'
        if usage == 'both-same-key':
            # the entity's one key pair serves for signing and for encryption
            usage, enc_key = 'both', 'idpA'
        cd = world.idp_config(TMP[0], [], top={'encryption_keypairs': [{'key_file': world.key(enc_key), 'cert_file': world.crt(enc_key)}],
                                               'metadata_key_usage': usage})
        cd['service']['aa'] = {'endpoints': {'attribute_service': [('https://idpa.example/aa', world.BINDING_SOAP)]}}
        cd['service']['sp'] = {'endpoints': {'assertion_consumer_service': [('https://idpa.example/acs', world.BINDING_HTTP_POST)]}}
        conf = _Cfg()
        conf.load(cd)
        xml = world.generated_metadata(conf)
        c2 = Config()
        c2.xmlsec_binary = world.XMLSEC
        mds = MetadataStore(ac_factory(), c2)
        mds.load('local', world.write_md(TMP[0], xml))
        bad = []
        for role in ('idpsso', 'spsso', 'attribute_authority'):
            ce = [''.join(x.split()) for x in mds.certs(conf.entityid, role, 'encryption')]
            cs = [''.join(x.split()) for x in mds.certs(conf.entityid, role, 'signing')]
            if usage in ('both', 'encryption') and world.cert_b64(enc_key) not in ce:
                bad.append(('encryption-cert-not-round-tripped', role, len(ce)))
            if usage in ('both', 'signing') and world.cert_b64('idpA') not in cs:
                bad.append(('signing-cert-not-round-tripped', role, len(cs)))
        return which, bad
    else:
        ent = world.make_idp(TMP[0])
        conf = ent.config
        role = 'idpsso'
        eps = {'single_sign_on_service': conf.getattr('endpoints', 'idp')['single_sign_on_service'],
               'single_logout_service': conf.getattr('endpoints', 'idp')['single_logout_service']}
        sign = 'idpA'
        enc = ()
    xml = world.generated_metadata(conf)
    c2 = Config()
    c2.xmlsec_binary = world.XMLSEC
    mds = MetadataStore(ac_factory(), c2)
    mds.load('local', world.write_md(TMP[0], xml))
    bad = []
    eid = conf.entityid
    for svc, lst in eps.items():
        got = norm_endpoints(mds.service(eid, role + '_descriptor', svc, None))
        want = sorted((b, l) for l, b in lst)
        if sorted((b, l) for b, l, _i in got) != want:
            bad.append(('endpoints-not-round-tripped', svc, got))
        elif want_idx is not None and sorted(got) != want_idx:
            bad.append(('endpoint-indexes-not-round-tripped', svc, got))
    certs = [''.join(x.split()) for x in mds.certs(eid, role, 'signing')]
    if world.cert_b64(sign) not in certs:
        bad.append(('signing-cert-not-round-tripped', None, len(certs)))
    for e in enc:
        ce = [''.join(x.split()) for x in mds.certs(eid, role, 'encryption')]
        if world.cert_b64(e) not in ce:
            bad.append(('encryption-cert-not-round-tripped', None, len(ce)))
    return which, bad


def run(ctx):
    TMP[0] = ctx.tmp
    feds = federations(ctx.thorough)
    res = ctx.pmap(evaluate, feds, chunksize=2)
    ctx.recheck(evaluate, feds, res, n=6)
    n = 0
    nontriv = set()
    for (name, docs), (_n, k, bad) in zip(feds, res):
        n += k
        nontriv.add(name)
        for kind, q, got in bad:
            ctx.violation({'kind': kind, 'federation': name, 'query': q}, {'got': got})
    sc = signed_cases()
    sres = ctx.pmap(evaluate_signed, sc, chunksize=2)
    for case, served, r, raised, bad in sres:
        n += 1
        nontriv.add(('signed',) + case)
        if bad:
            ctx.violation({'kind': bad.split(':')[0], 'signature_state': case[0], 'loader_cert': case[1], 'shape': case[2]},
                          {'served': served, 'load_returned': r, 'raised': raised})
    for which in ('sp', 'sp-enc', 'idp', 'sp-indexed:tuples', 'sp-indexed:zero-last', 'sp-indexed:strings', 'sp-indexed:gaps', 'multi-role:both', 'multi-role:encryption', 'multi-role:signing', 'multi-role:both-same-key'):
        try:
            w, bad = evaluate_roundtrip(which)
        except NameError:
            raise
        except Exception as e:          # generating or loading back the entity's own metadata failed
            bad = [('config-round-trip-raised:%s' % type(e).__name__, None, None)]
        n += 1
        nontriv.add(('roundtrip', which))
        for kind, svc, got in bad:
            ctx.violation({'kind': kind, 'config': which, 'service': svc}, {'got': got})
    return {
        'level': 'exploration',
        'coverage': {
            'evaluations': n, 'distinct_nontrivial': len(nontriv), 'exhaustive': True, 'federations': len(feds),
            'queries_per_federation': len(ALL_IDS) * (len(QUERIES) * len(BINDINGS) + 10 + 2) + 2,
            'rule': 'federation document sets: every entity of a 7-entity alphabet (IdP with signing+encryption keys, SP with ACS indexes/requested attributes/entity category, AA with use-less key, entity with validUntil past / future, SAML1-only entity, dual-role entity with different keys per role and a PDP role) alone, wrapped in an EntitiesDescriptor with validUntil absent/past/future, all pairs%s in one document, ordered pairs over two sources, duplicates with different content in both orders and inside one document, an expired document followed by a good one%s; validUntil with seven fraction digits on entities and aggregates; entity categories spread over two EntityAttributes elements; every query tuple (8 entity ids incl. unknown) x 7 (role, service) x 5 bindings, certs(descriptor x use), entity categories, attribute requirements, provider listing; 30 signed-metadata cases (signature state x loader certificate x EntityDescriptor/EntitiesDescriptor); configuration -> generated metadata -> store round trip for SP (with/without encryption key; explicit integer / string endpoint indexes incl. 0, in several orders) and IdP' % (' and triples' if ctx.thorough else ' (triples containing the dual-role entity)', ', ordered triples over three sources' if ctx.thorough else ''),
            'samples': [{'federation': feds[len(feds) // 2][0]}],
        },
        'assumptions': ['table cells / federations are evaluated in a process time zone (UTC, UTC+5, UTC-5) chosen as a function of their coordinates: verdicts must not depend on it', 'reference answers are computed from the generating specification (the declared content)', 'duplicate entityIDs: any one declared version, unmixed, is accepted',
                        'accessors on roles an entity lacks: any exception or empty result counts as no data', 'virtual clock decides validUntil'],
    }


def replay(ctx, w):
    TMP[0] = ctx.tmp
    if 'federation' in w:
        for f in federations(True):
            if f[0] == w['federation']:
                _n, _k, bad = evaluate(f)
                return {'violation': any(b[0] == w['kind'] and b[1] == w['query'] for b in bad), 'all': [b[:2] for b in bad][:5]}
    if 'signature_state' in w:
        r = evaluate_signed((w['signature_state'], w['loader_cert'], w['shape']))
        return {'violation': bool(r[4]), 'observed': [r[1], r[2], r[3]]}
    if 'config' in w:
        _w, bad = evaluate_roundtrip(w['config'])
        return {'violation': bool(bad), 'observed': bad}
    return {'violation': False}
