"""C20 - failures of the external XML-security tool never turn into acceptance (fault enumeration at the seam)."""
import itertools

from vp import env, world, forge, oracle, faults, xmlsec
from vp.world import BINDING_HTTP_POST, IDP_A, SP_X, ACS_POST

TMP = [None]
_c = {}
MARK = ('subj-MARKER-7731', 'attr-MARKER-5512')


def sp(kind):
    if ('sp', kind) not in _c:
        if kind == 'wr':
            s = world.make_sp(TMP[0], want_response_signed=True)
        elif kind == 'wa':
            s = world.make_sp(TMP[0], want_response_signed=False, want_assertions_signed=True)
        elif kind == 'both':
            s = world.make_sp(TMP[0], want_response_signed=True, want_assertions_signed=True)
        elif kind == 'none':
            s = world.make_sp(TMP[0], want_response_signed=False)
        elif kind == 'twokeys':
            s = world.make_sp(TMP[0], want_response_signed=False, want_assertions_signed=True, enc=('spXenc2', 'spXenc1'))
        elif kind == 'twokeys-wr':
            s = world.make_sp(TMP[0], want_response_signed=True, enc=('spXenc2', 'spXenc1'))
        elif kind == 'wr@1.3':
            s = world.make_sp(TMP[0], want_response_signed=True)
        elif kind == 'twocerts':
            s = world.make_sp(TMP[0], [world.idp_md(keys=(('idpA2', 'signing'), ('idpA', 'signing')))], want_response_signed=True)
        _c[('sp', kind)] = s
    return _c[('sp', kind)]


def idp(kind='plain'):
    if ('idp', kind) not in _c:
        if kind == 'sp-without-encryption-cert':
            _c[('idp', kind)] = world.make_idp(TMP[0], [world.sp_md(keys=(('spX', 'signing'),))])
            return _c[('idp', kind)]
        if kind == 'plain@1.3':
            _c[('idp', kind)] = world.make_idp(TMP[0], [world.sp_md()])
            return _c[('idp', kind)]
        if kind == 'want-signed':
            _c[('idp', kind)] = world.make_idp(TMP[0], [world.sp_md()], want_authn_requests_signed=True)
        elif kind == 'only-valid-cert':
            _c[('idp', kind)] = world.make_idp(TMP[0], [world.sp_md()], want_authn_requests_only_with_valid_cert=True)
        else:
            _c[('idp', kind)] = world.make_idp(TMP[0], [world.sp_md()])
    return _c[('idp', kind)]


def tamper(x):
    return x.replace('SessionIndex="s1"', 'SessionIndex="s2"', 1)


def tamper_resp(x):
    return x.replace('InResponseTo="req1"', 'InResponseTo="req2"', 1)


def doc(name):
    if name not in _c:
        env.Clock.set(env.BASE)
        b = env.BASE
        d = {
            'resp-signed': lambda: forge.build(b, sign_resp='idpA'),
            'ass-signed': lambda: forge.build(b, sign_ass='idpA'),
            'both-signed': lambda: forge.build(b, sign_resp='idpA', sign_ass='idpA'),
            'enc-ass-signed': lambda: forge.build(b, sign_ass='idpA', encrypt='spXenc1'),
            'enc-resp-signed': lambda: forge.build(b, sign_resp='idpA', encrypt='spXenc1'),
            'enc-resp-signed-BAD': lambda: forge.build(b, sign_resp='idpA', encrypt='spXenc1', mutate_final=tamper_resp),
            'unsigned': lambda: forge.build(b),
            'resp-signed-BAD': lambda: forge.build(b, sign_resp='idpA', mutate_final=tamper),
            'ass-signed-BAD': lambda: forge.build(b, sign_ass='idpA', mutate_after_ass_sign=tamper),
            'both-signed-BAD': lambda: forge.build(b, sign_resp='idpA', sign_ass='idpA', mutate_after_ass_sign=tamper),
            'enc-ass-signed-BAD': lambda: forge.build(b, sign_ass='idpA', encrypt='spXenc1', mutate_after_ass_sign=tamper),
            'enc-wrongkey': lambda: forge.build(b, sign_ass='idpA', encrypt='spY'),
            'req-signed': lambda: forge.request(b, dest=world.SSO_A + '/post', sign='spX'),
            'req-signed-BAD': lambda: forge.request(b, dest=world.SSO_A + '/post', sign='spX').replace('AllowCreate="true"', 'AllowCreate="false"'),
            'req-unsigned': lambda: forge.request(b, dest=world.SSO_A + '/post'),
        }[name]()
        _c[name] = d
    return _c[name]


# operation name -> (kind, callable returning observation dict)
def op_parse(spkind, docname):
    def f():
        return oracle.accept_response(sp(spkind), doc(docname))
    return f


def op_request(idpkind, docname):
    def f():
        try:
            r = idp(idpkind).parse_authn_request(forge.enc_post(doc(docname)), BINDING_HTTP_POST)
            ok = r is not None and getattr(r, 'message', None) is not None
            return {'accept': bool(ok), 'exc': None if ok else 'None'}
        except Exception as e:
            return {'accept': False, 'exc': type(e).__name__}
    return f


def op_create_response(**kw):
    def f():
        from saml2_tophat import saml
        ident = {'givenName': [MARK[1]], 'mail': ['x@example.org']}
        nid = saml.NameID(text=MARK[0], format=saml.NAMEID_FORMAT_TRANSIENT)
        try:
            r = idp().create_authn_response(ident, 'req1', ACS_POST, SP_X, name_id=nid, authn={'class_ref': forge.PASSWORD}, **kw)
            return {'returned': True, 'text': str(r), 'exc': None}
        except Exception as e:
            return {'returned': False, 'exc': type(e).__name__, 'text': None}
    return f


def op_create_request():
    def f():
        try:
            rid, r = sp('wr').create_authn_request(world.SSO_A, sign=True)
            return {'returned': True, 'text': str(r), 'exc': None}
        except Exception as e:
            return {'returned': False, 'exc': type(e).__name__, 'text': None}
    return f


class _Resp(object):
    def __init__(self, body):
        self.status_code = 200
        self.content = body.encode('utf-8')
        self.text = body


class _Http(object):
    def __init__(self, pages):
        self.pages = pages

    def send(self, url, *a, **k):
        return _Resp(self.pages[url])


def op_metadata(signed_ok, via='store'):
    """A signed metadata feed with a pinned signer certificate, consumed the way applications consume it: through
    MetadataStore.load('remote', url=, cert=) (the store ignores load()'s return value) or MetaDataFile directly.
    accept = the feed's entity is served afterwards."""
    def f():
        from saml2_tophat.mdstore import MetaDataFile, MetadataStore
        from saml2_tophat.attribute_converter import ac_factory
        k = 'mdfile-%s' % signed_ok
        if k not in _c:
            inner = world.idp_md('urn:vp:fed-idp', keys=(('idpB', 'signing'),))
            tmpl = forge.sig_template('MD1')
            x = inner.replace('<md:EntityDescriptor ', '<md:EntityDescriptor ID="MD1" ', 1).replace('>', '>' + tmpl, 1)
            x = xmlsec.sign_xml(x, 'MD1', world.priv('mdsigner'))
            if not signed_ok:
                x = x.replace('https://idpa.example/sso', 'https://evil.example/sso')
            import os
            p = os.path.join(TMP[0], 'fed-%s-%d.xml' % (signed_ok, os.getpid()))      # (one file per worker process)
            with open(p, 'w') as f:
                f.write(x)
            _c[k] = (p, x)
        path, text = _c[k]
        node = 'urn:oasis:names:tc:SAML:2.0:metadata:EntityDescriptor'
        try:
            if via == 'store':
                mds = MetadataStore(ac_factory(), sp('wr').config)
                mds.http = _Http({'https://md.example/fed': text})
                exc = None
                try:
                    mds.load('remote', url='https://md.example/fed', cert=world.crt('mdsigner'), node_name=node)
                except Exception as e:
                    exc = type(e).__name__
                # whatever load() did, what counts is what the (long-lived) store serves afterwards
                try:
                    served = 'urn:vp:fed-idp' in list(mds.keys()) or bool(mds.single_sign_on_service('urn:vp:fed-idp', None))
                except Exception:
                    served = False
                return {'accept': served, 'exc': exc}
            md = MetaDataFile(ac_factory(), path, cert=world.crt('mdsigner'), security=sp('wr').sec, node_name=node)
            ok = md.load()
            served = list(md.keys()) if hasattr(md, 'keys') else []
            return {'accept': bool(served) and ok is not False, 'exc': None, 'loaded': ok}
        except Exception as e:
            return {'accept': False, 'exc': type(e).__name__}
    return f


def op_metadata_refresh():
    """A long-lived store whose signed source was loaded fine; the source is loaded again (refresh) and now serves a
    document that names one more entity and whose signature does not verify.  accept = that entity is served."""
    def f():
        from saml2_tophat.mdstore import MetadataStore
        from saml2_tophat.attribute_converter import ac_factory
        if 'mdrefresh' not in _c:
            def feed(ents):
                body = ''.join(world.idp_md(e, keys=(('idpB', 'signing'),)).replace(' xmlns:md="%s"' % world.MD, '', 1) for e in ents)
                x = '<md:EntitiesDescriptor xmlns:md="%s" ID="MD1">%s%s</md:EntitiesDescriptor>' % (world.MD, forge.sig_template('MD1'), body)
                return xmlsec.sign_xml(x, 'MD1', world.priv('mdsigner'))
            good = feed(['urn:vp:fed-idp'])
            forged = feed(['urn:vp:fed-idp']).replace('</md:EntitiesDescriptor>', world.idp_md('urn:vp:evil-idp', keys=(('mallory', 'signing'),)).replace(' xmlns:md="%s"' % world.MD, '', 1) + '</md:EntitiesDescriptor>')
            _c['mdrefresh'] = (good, forged)
        good, forged = _c['mdrefresh']
        node = 'urn:oasis:names:tc:SAML:2.0:metadata:EntitiesDescriptor'
        mds = MetadataStore(ac_factory(), sp('wr').config)
        mds.http = _Http({'https://md.example/fed': good})
        exc = None
        try:
            mds.load('remote', url='https://md.example/fed', cert=world.crt('mdsigner'), node_name=node)
        except Exception as e:
            return {'accept': False, 'exc': 'first-load:%s' % type(e).__name__}
        mds.http.pages['https://md.example/fed'] = forged
        for src in list(mds.metadata.values()):
            try:
                src.load()
            except BaseException as e:      # noqa
                exc = type(e).__name__
        try:
            served = 'urn:vp:evil-idp' in list(mds.keys()) or bool(mds.single_sign_on_service('urn:vp:evil-idp', None))
        except Exception:
            served = False
        return {'accept': served, 'exc': exc}
    return f


def with_version(v, fn):
    def f():
        xmlsec.VERSION[0] = v
        try:
            return fn()
        finally:
            xmlsec.VERSION[0] = '1.2.28'
    return f


def op_other_response(how):
    """Other entry points that sign or encrypt what they return."""
    def f():
        from saml2_tophat import saml, samlp
        try:
            if how == 'error-response':
                r = idp().create_error_response('req1', ACS_POST, (samlp.STATUS_RESPONDER, 'sorry'), sign=True)
            elif how == 'logout-response':
                lr = samlp.logout_request_from_string(forge.request(env.BASE, kind='LogoutRequest', dest=world.SLO_A))
                r = idp().create_logout_response(lr, [world.BINDING_SOAP], sign=True)
            elif how == 'attribute-response':
                r = idp().create_attribute_response({'givenName': [MARK[1]]}, 'req1', ACS_POST, SP_X, sign_response=True,
                                                    name_id=saml.NameID(text=MARK[0], format=saml.NAMEID_FORMAT_TRANSIENT))
            elif how == 'encrypt-with-request-certificate':
                r = idp('sp-without-encryption-cert').create_authn_response(
                    {'givenName': [MARK[1]], 'mail': ['x@example.org']}, 'req1', ACS_POST, SP_X,
                    name_id=saml.NameID(text=MARK[0], format=saml.NAMEID_FORMAT_TRANSIENT), authn={'class_ref': forge.PASSWORD},
                    encrypt_assertion=True, encrypt_cert_assertion=world.cert_b64('spXenc2'))
            elif how == 'logout-request':
                rid, r = sp('wr').create_logout_request(world.SLO_A, world.IDP_A, name_id=saml.NameID(text='x', format=saml.NAMEID_FORMAT_TRANSIENT), sign=True)
            return {'returned': True, 'text': str(r), 'exc': None}
        except Exception as e:
            return {'returned': False, 'exc': type(e).__name__, 'text': None}
    return f


def op_assertion_id_response():
    """An IdP offering the AssertionIDRequest service keeps issued assertions; the stored assertion is asked for
    twice (a failed first attempt must not turn the second answer into an unsigned one)."""
    def f():
        from saml2_tophat import saml
        if ('idp', 'aidr') not in _c:
            eps = {'single_sign_on_service': [(world.SSO_A, world.BINDING_HTTP_REDIRECT)],
                   'assertion_id_request_service': [('https://idpa.example/aidr', 'urn:oasis:names:tc:SAML:2.0:bindings:URI')]}
            _c[('idp', 'aidr')] = world.make_idp(TMP[0], [world.sp_md()], endpoints=eps)
        srv = _c[('idp', 'aidr')]
        try:
            r = srv.create_authn_response({'givenName': [MARK[1]]}, 'req1', ACS_POST, SP_X, sign_assertion=True, authn={'class_ref': forge.PASSWORD},
                                          name_id=saml.NameID(text=MARK[0], format=saml.NAMEID_FORMAT_TRANSIENT))
            aid = r.assertion[0].id if hasattr(r, 'assertion') else None
            if aid is None:
                from saml2_tophat import samlp
                aid = samlp.response_from_string(str(r)).assertion[0].id
        except Exception as e:
            return {'returned': False, 'exc': type(e).__name__, 'text': None}
        out = None
        for _attempt in (1, 2):
            try:
                out = srv.create_assertion_id_request_response(aid)
            except Exception as e:
                out = None
                exc = type(e).__name__
        if out is None:
            return {'returned': False, 'exc': exc, 'text': None}
        return {'returned': True, 'text': str(out), 'exc': None}
    return f


OPS = {}


def build_ops():
    if OPS:
        return OPS
    for spk, d in (('wr', 'resp-signed'), ('wa', 'ass-signed'), ('both', 'both-signed'), ('wa', 'enc-ass-signed'),
                   ('twocerts', 'resp-signed'), ('twokeys', 'enc-ass-signed'), ('wr', 'enc-resp-signed'), ('twokeys-wr', 'enc-resp-signed'), ('none', 'ass-signed'), ('none', 'resp-signed')):
        OPS['parse:%s:%s' % (spk, d)] = ('verify', op_parse(spk, d), True)
        OPS['parse:%s:%s-BAD' % (spk, d)] = ('verify', op_parse(spk, d + '-BAD'), False)
    OPS['parse:wa:enc-wrongkey'] = ('verify', op_parse('wa', 'enc-wrongkey'), False)
    OPS['parse:none:unsigned'] = ('verify', op_parse('none', 'unsigned'), True)
    OPS['request:plain:req-signed'] = ('verify', op_request('plain', 'req-signed'), True)
    OPS['request:plain:req-signed-BAD'] = ('verify', op_request('plain', 'req-signed-BAD'), False)
    OPS['request:want-signed:req-signed'] = ('verify', op_request('want-signed', 'req-signed'), True)
    OPS['request:want-signed:req-unsigned'] = ('verify', op_request('want-signed', 'req-unsigned'), False)
    OPS['request:only-valid-cert:req-signed'] = ('verify', op_request('only-valid-cert', 'req-signed'), True)
    OPS['request:only-valid-cert:req-signed-BAD'] = ('verify', op_request('only-valid-cert', 'req-signed-BAD'), False)
    OPS['metadata:signed'] = ('verify', op_metadata(True), True)
    OPS['metadata:signed-BAD'] = ('verify', op_metadata(False), False)
    OPS['metadata-refresh:forged-second-document'] = ('verify', op_metadata_refresh(), False)
    OPS['metadata-file:signed'] = ('verify', op_metadata(True, 'file'), True)
    OPS['metadata-file:signed-BAD'] = ('verify', op_metadata(False, 'file'), False)
    OPS['create:sign_assertion'] = ('protect', op_create_response(sign_assertion=True), {'ass': True})
    OPS['create:sign_response'] = ('protect', op_create_response(sign_response=True), {'resp': True})
    OPS['create:sign_both'] = ('protect', op_create_response(sign_response=True, sign_assertion=True), {'resp': True, 'ass': True})
    OPS['create:encrypt'] = ('protect', op_create_response(encrypt_assertion=True), {'enc': True})
    OPS['create:sign+encrypt'] = ('protect', op_create_response(sign_assertion=True, encrypt_assertion=True, sign_response=True), {'resp': True, 'enc': True})
    OPS['create:authn_request'] = ('protect', op_create_request(), {'req': True})
    OPS['create:error_response(sign)'] = ('protect', op_other_response('error-response'), {'resp': True})
    OPS['create:logout_response(sign)'] = ('protect', op_other_response('logout-response'), {'resp': True})
    OPS['create:attribute_response(sign_response)'] = ('protect', op_other_response('attribute-response'), {'resp': True})
    OPS['create:logout_request(sign)'] = ('protect', op_other_response('logout-request'), {'req': True})
    OPS['create:assertion_id_response(stored, asked twice)'] = ('protect', op_assertion_id_response(), {'root_signed': True})
    OPS['create:encrypt-with-request-certificate'] = ('protect', op_other_response('encrypt-with-request-certificate'), {'enc': True})
    # a tool that reports version 1.3 (verdict lines read 'Verification status: ...'): messages that do not verify
    OPS['parse:wr:resp-signed-BAD@tool-1.3'] = ('verify', with_version('1.3.4', op_parse('wr@1.3', 'resp-signed-BAD')), False)
    OPS['request:plain:req-signed-BAD@tool-1.3'] = ('verify', with_version('1.3.4', op_request('plain@1.3', 'req-signed-BAD')), False)
    OPS['metadata:signed-BAD@tool-1.3'] = ('verify', with_version('1.3.4', op_metadata(False)), False)
    return OPS


def run_op(name, plan):
    env.Clock.set(env.BASE)
    env.reset_rng()
    env.Seam.reset({(k if (k == 'all' or str(k).startswith('from:')) else int(k)): v for k, v in plan.items()})
    kind, fn, _exp = build_ops()[name]
    obs = fn()
    log = [{'cmd': e['cmd'], 'node_id': (e.get('info') or {}).get('node_id'), 'genuine': bool(e.get('genuine')),
            'fault': e.get('fault'), 'target': (e.get('info') or {}).get('sig') or (e.get('info') or {}).get('target')}
           for e in env.Seam.log]
    return obs, log


def protected_ok(text, want):
    """Is the returned message really protected as requested?  Returns reason or None."""
    try:
        d = xmlsec.parse_doc(text)
    except xmlsec.Fail:
        return None          # not a message at all: nothing is passed off as protected
    root = d.documentElement
    if want.get('resp') or want.get('req'):
        ok, why = oracle.strict_signature(d, root, ['idpA' if want.get('resp') else 'spX'])
        if not ok:
            return 'returned-message-not-signed:%s' % why
    if want.get('root_signed'):
        ok, why = oracle.strict_signature(d, root, ['idpA'])
        if not ok:
            return 'returned-assertion-not-signed:%s' % why
    if want.get('enc'):
        for m in MARK:
            if m in text:
                return 'returned-message-not-encrypted'
    if want.get('ass') and not want.get('enc'):
        a = oracle.direct_assertions(root)
        if not a:
            return 'returned-message-has-no-assertion'
        ok, why = oracle.strict_signature(d, a[0], ['idpA'])
        if not ok:
            return 'returned-assertion-not-signed:%s' % why
    return None


def evaluate(task):
    name, plan = task
    kind, _fn, exp = build_ops()[name]
    base_obs, base_log = BASE[name]
    obs, log = run_op(name, plan)
    bad = None
    if kind == 'verify':
        if obs['accept']:
            if not exp:
                bad = 'message-rejected-fault-free-is-accepted-under-faults'
            else:
                need_nodes = set(e['node_id'] for e in base_log if e['cmd'] == '--verify' and e['genuine'])
                got_nodes = set(e['node_id'] for e in log if e['cmd'] == '--verify' and e['genuine'])
                if not need_nodes <= got_nodes:
                    bad = 'accepted-without-a-genuine-verification-of:%s' % sorted(need_nodes - got_nodes)
                need_dec = any(e['cmd'] == '--decrypt' and e['genuine'] for e in base_log)
                if need_dec and not any(e['cmd'] == '--decrypt' and e['genuine'] for e in log):
                    bad = 'identity-without-a-genuine-decryption'
                # the tool is run again only while something is still encrypted, so an accepted response ends its
                # decryption runs with a successful one; otherwise the identity stems from an earlier, aborted pass
                decs = [e for e in log if e['cmd'] == '--decrypt']
                if need_dec and decs and not decs[-1]['genuine'] and not bad:
                    bad = 'identity-although-the-last-decryption-run-failed'
        res = {'accept': obs['accept'], 'exc': obs.get('exc')}
    else:
        if obs['returned']:
            bad = protected_ok(obs['text'], exp)
        res = {'returned': obs['returned'], 'exc': obs.get('exc')}
    res['bad'] = bad
    res['n_inv'] = len(log)
    return res


BASE = {}
NO_RESULT = [f for f in faults.CATALOGUE if f not in ('out-truncated', 'out-garbage')]


def plans_for(name, thorough):
    kind, _fn, _exp = build_ops()[name]
    _obs, log = BASE[name]
    n = len(log)
    cat = faults.CATALOGUE
    out = []
    for i in range(n):
        for f in cat:
            out.append({str(i): f})
    for f in cat:
        out.append({'all': f})
    # the first i invocations genuine, every later one (also those a retry adds) faulty
    for i in range(1, n):
        for f in cat:
            out.append({'from:%d' % i: f})
    # ... and the same restricted to one command: e.g. the first decryption genuine, every later decryption faulty,
    # verifications untouched
    for cmd in sorted(set(e['cmd'] for e in log)):
        idx = [i for i, e in enumerate(log) if e['cmd'] == cmd]
        for i in idx[1:] + [idx[-1] + 1]:
            for f in cat:
                out.append({'from:%d:%s' % (i, cmd): f})
    if thorough and n >= 2:
        for i, j in itertools.combinations(range(n), 2):
            for f, g in itertools.product(cat, cat):
                out.append({str(i): f, str(j): g})
    return out


def run(ctx):
    TMP[0] = ctx.tmp
    ops = build_ops()
    nontrivial_ops = 0
    for name in ops:
        BASE[name] = run_op(name, {})
        obs, log = BASE[name]
        kind, _fn, exp = ops[name]
        if kind == 'verify':
            if bool(obs['accept']) != bool(exp):
                ctx.violation({'kind': 'fault-free-baseline-unexpected', 'op': name, 'accept': obs['accept']}, {'exc': obs.get('exc')})
        else:
            if not obs['returned'] or protected_ok(obs['text'], exp):
                ctx.violation({'kind': 'fault-free-baseline-unexpected', 'op': name}, {'exc': obs.get('exc'), 'why': protected_ok(obs['text'], exp) if obs['returned'] else None})
    tasks = []
    for name in ops:
        for p in plans_for(name, ctx.thorough):
            tasks.append((name, p))
    res = ctx.pmap(evaluate, tasks)
    ctx.recheck(evaluate, tasks, res, n=32)
    hist = {}
    nontriv = set()
    for (name, plan), r in zip(tasks, res):
        k = '%s' % (('ACCEPT' if r.get('accept') else 'REJECT:%s' % r['exc']) if 'accept' in r else ('RETURNED' if r['returned'] else 'RAISED:%s' % r['exc']))
        hist[k] = hist.get(k, 0) + 1
        if r['n_inv'] > 0:
            nontriv.add((name, repr(sorted(plan.items()))))
        if r['bad']:
            _obs, blog = BASE[name]
            sites = []
            for kk in plan:
                if kk != 'all' and not str(kk).startswith('from:') and int(kk) < len(blog):
                    sites.append(blog[int(kk)]['cmd'])
                elif str(kk).startswith('from:'):
                    sites.append('from:' + (kk.split(':', 2)[2] if kk.count(':') > 1 else blog[int(kk[5:])]['cmd']))
            ctx.violation({'kind': r['bad'].split(':')[0], 'op': name, 'plan': plan, 'faults': sorted(set(plan.values())),
                           'site': sorted(set(sites)) or ['all']}, {'detail': r['bad'], 'observed': {k: v for k, v in r.items() if k != 'bad'}})
    inv = {name: [e['cmd'] for e in BASE[name][1]] for name in ops}
    return {
        'level': 'fault_enumeration',
        'coverage': {
            'evaluations': len(tasks), 'distinct_nontrivial': len(nontriv), 'exhaustive': True,
            'rule': 'for each of %d operations (SP parse of response-/assertion-/both-signed, encrypted, two metadata certificates, two decryption keys, each also with an invalid signature; IdP parse of signed/unsigned requests with and without want_authn_requests_signed; signed metadata load; create_authn_response with sign/encrypt combinations, also with a per-request encryption certificate for an SP without one in metadata; create_authn_request / create_logout_request / create_error_response / create_logout_response / create_attribute_response with signing; non-verifying messages under a tool that reports version 1.3) the fault-free invocation sequence is learnt, then every fault of the %d-entry catalogue is injected at every invocation ordinal, at every invocation, and at every invocation from ordinal i on (i >= 1, including invocations a retry adds; also restricted to one command, e.g. every decryption after the first)%s; non-trivial = plans for operations that invoke the tool at least once' % (len(ops), len(faults.CATALOGUE), '; plus all pairs of (ordinal, fault)' if ctx.thorough else ''),
            'samples': [{'op': tasks[i][0], 'plan': tasks[i][1], 'outcome': res[i]} for i in (0, len(tasks) // 2, len(tasks) - 1)],
            'operations': sorted(ops), 'invocation_sequences': inv, 'fault_catalogue': faults.CATALOGUE,
            'distinct_outcomes': len(hist), 'outcome_histogram': hist,
        },
        'assumptions': ['faults are injected at saml2_tophat.sigver.Popen (start failure, exit status, stdout/stderr bytes, output file); the combination non-zero exit WITH a genuine OK line is excluded (statement: "without reporting success")',
                        'out-truncated / out-garbage on sign/encrypt sites: only flagged if the returned text is a well-formed message that is not protected'],
    }


def replay(ctx, w):
    TMP[0] = ctx.tmp
    build_ops()
    BASE[w['op']] = run_op(w['op'], {})
    r = evaluate((w['op'], w['plan']))
    return {'violation': bool(r['bad']), 'observed': r}
