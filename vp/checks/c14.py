"""C14 - binding encoders and decoders are exact inverses and inject nothing (bounded-exhaustive strings)."""
import base64
import hashlib
import itertools
from html.parser import HTMLParser
from urllib.parse import urlsplit, unquote_plus
from xml.etree import ElementTree as ET

from vp import env, world, forge
from vp.world import (BINDING_HTTP_POST, BINDING_HTTP_REDIRECT, BINDING_SOAP, BINDING_PAOS, BINDING_ARTIFACT)

TMP = [None]
_c = {}
ALPH = ['a', ' ', '"', "'", '<', '>', '&', '=', '+', '%', '#', ';', '\n', '\r', '\t', 'é', '€', '\U0001F600', '\x01',
        '{', '}', '/', '?', '\\', '$', '\x85', '\x9f']       # (two C1 controls: HTML remaps their numeric references)
FIXED = ['&Signature=x', '&SAMLRequest=x', '"/><input name="x', '%26SigAlg%3D', 'https://sp.example/return?next=%2Fhome&a=b',
         '{action}', '{0}', '{{x}}', '%', '%zz', 'x' * 4096, '</form><script>alert(1)</script>', "' onfocus='x", 'a&amp;b', '&#38;']
DESTS = ['https://idp.example/sso', 'https://idp.example/sso?tenant=a%20b&x=1']


def sp():
    if 'sp' not in _c:
        _c['sp'] = world.make_sp(TMP[0])
    return _c['sp']


def strings(n):
    out = []
    for k in range(1, n + 1):
        for tup in itertools.product(ALPH, repeat=k):
            out.append(''.join(tup))
    return out


def strict_query(q):
    """Strict application/x-www-form-urlencoded reader: list of (name, value) or None if malformed."""
    out = []
    if q == '':
        return out
    for part in q.split('&'):
        if part.count('=') != 1:
            return None
        k, v = part.split('=')
        for s in (k, v):
            i = 0
            while i < len(s):
                ch = s[i]
                if ch == '%':
                    if i + 2 >= len(s) + 0 and len(s) - i < 3:
                        return None
                    h = s[i + 1:i + 3]
                    if len(h) != 2 or any(c not in '0123456789abcdefABCDEF' for c in h):
                        return None
                    i += 3
                    continue
                if not (ch.isalnum() and ord(ch) < 128) and ch not in '-_.~+*':
                    return None
                i += 1
        out.append((unquote_plus(k), unquote_plus(v)))
    return out


class FormReader(HTMLParser):
    def __init__(self):
        HTMLParser.__init__(self, convert_charrefs=True)
        self.forms = 0
        self.inputs = []
        self.tags = []
        self.in_form = False

    def handle_starttag(self, tag, attrs):
        self.tags.append((tag, tuple(sorted(a for a, _v in attrs))))
        if tag == 'form':
            self.forms += 1
            self.in_form = True
            self.action = dict(attrs).get('action')
        if tag == 'input':
            self.inputs.append(dict(attrs))

    def handle_startendtag(self, tag, attrs):
        self.handle_starttag(tag, attrs)


def read_form(html_text):
    r = FormReader()
    r.feed(html_text)
    r.close()
    return r


def same_element(a, b):
    if a.tag != b.tag or (a.text or '') != (b.text or '') or dict(a.attrib) != dict(b.attrib) or len(a) != len(b):
        return False
    for x, y in zip(a, b):
        if (x.tail or '') != (y.tail or '') or not same_element(x, y):
            return False
    return True


def deflate_lookalikes(kmax=2):
    """Every string of up to kmax ASCII characters (NUL and CR excluded) whose bytes are a complete raw DEFLATE stream
    (found by exhaustive search), alone and followed by more text: payloads a decoder that 'tries to inflate' would alter."""
    import zlib
    pr = [chr(i) for i in range(1, 128) if i != 13]
    found = []
    for k in range(1, kmax + 1):
        for tup in itertools.product(pr, repeat=k):
            st = ''.join(tup)
            try:
                d = zlib.decompressobj(-15)
                d.decompress((st + 'tail').encode('ascii'))
                if d.eof:
                    found.append(st)
            except zlib.error:
                pass
    found = found[:400]
    return found + [f + '<x/>' for f in found[:60]] + ['+(@@@', 'K\x04\x00']


def messages():
    """Library-produced messages (strings as apply_binding receives them) + hand-made ones."""
    if 'msgs' in _c:
        return _c['msgs']
    env.Clock.set(env.BASE)
    env.reset_rng()
    s = sp()
    out = []
    rid, req = s.create_authn_request(world.SSO_A)
    out.append(('authn_request', 'SAMLRequest', 'authn_request', str(req)))
    rid, req = s.create_authn_request(world.SSO_A, sign=True)
    out.append(('authn_request-signed', 'SAMLRequest', 'authn_request', str(req)))
    from saml2_tophat import saml
    nid = saml.NameID(text='line1\nline2 é', format=saml.NAMEID_FORMAT_PERSISTENT)
    rid, lr = s.create_logout_request(world.SLO_A, world.IDP_A, name_id=nid)
    out.append(('logout_request-newline-in-text', 'SAMLRequest', 'logout_request', str(lr)))
    idp = world.make_idp(TMP[0])
    resp = idp.create_authn_response({'givenName': ['A\nB', '<&>"'], 'mail': ['€@example.org']}, 'req1', world.ACS_POST,
                                     world.SP_X, name_id=saml.NameID(text='alice', format=saml.NAMEID_FORMAT_TRANSIENT),
                                     authn={'class_ref': forge.PASSWORD})
    out.append(('authn_response', 'SAMLResponse', 'response', str(resp)))
    resp = idp.create_authn_response({'givenName': ['A B']}, 'req1', world.ACS_POST, world.SP_X, sign_response=True,
                                     name_id=saml.NameID(text='alice', format=saml.NAMEID_FORMAT_TRANSIENT),
                                     authn={'class_ref': forge.PASSWORD})
    out.append(('authn_response-signed', 'SAMLResponse', 'response', str(resp)))
    out.append(('forged-pretty-printed', 'SAMLRequest', 'authn_request',
                forge.request(env.BASE).replace('><', '>\n  <')))
    out.append(('forged-no-decl-newlines', 'SAMLRequest', 'logout_request',
                forge.request(env.BASE, kind='LogoutRequest').replace('alice', 'al\nice\n')))
    for i, txt in enumerate(('C:\\temp\\new', 'EXAMPLE\\jdoe \\\\fileserver\\home', 'group\\1 \\g&lt;0&gt; $1 ${x}', '%s %(x)s {0} {x}', 'a\\')):
        out.append(('forged-backslash-%d' % i, 'SAMLRequest', 'logout_request',
                    forge.request(env.BASE, kind='LogoutRequest').replace('alice', txt)))
    # Unicode line-boundary characters (valid XML characters) in text and attribute values, with and without an XML
    # declaration line in front
    lb = forge.request(env.BASE, kind='LogoutRequest').replace('alice', 'a\u2028b\u2029c\u0085d').replace('ID="Q1"', 'ID="Q1" Consent="x\u2028y"')
    out.append(('forged-unicode-line-boundaries', 'SAMLRequest', 'logout_request', lb))
    out.append(('forged-unicode-line-boundaries-with-declaration', 'SAMLRequest', 'logout_request', '<?xml version="1.0" encoding="UTF-8"?>\n' + lb))
    # an unqualified element (no default namespace in scope) inside Extensions
    out.append(('forged-unqualified-extension', 'SAMLRequest', 'authn_request',
                forge.request(env.BASE, extensions='<login_hint>alice@example.org</login_hint><x:y xmlns:x="urn:vp:x"><inner a="1"/></x:y>')))
    # an XML declaration with the document element right behind it (no line break)
    out.append(('forged-declaration-no-newline', 'SAMLRequest', 'logout_request',
                '<?xml version="1.0" encoding="UTF-8"?>' + forge.request(env.BASE, kind='LogoutRequest')))
    out.append(('forged-declaration-single-quotes-no-newline', 'SAMLRequest', 'logout_request',
                "<?xml version='1.0' encoding='UTF-8'?>" + forge.request(env.BASE, kind='LogoutRequest').replace('alice', 'a?>b')))
    out.append(('forged-declaration-crlf', 'SAMLRequest', 'logout_request',
                '<?xml version="1.0"?>\r\n' + forge.request(env.BASE, kind='LogoutRequest').replace('alice', 'x  y\n z')))
    _c['msgs'] = out
    return out


def check_redirect(msg, typ, rs, dest):
    s = sp()
    info = s.apply_binding(BINDING_HTTP_REDIRECT, msg, dest, rs, response=(typ == 'SAMLResponse'))
    url = dict(info['headers'])['Location']
    base, _, q = url.partition('?')
    dq = urlsplit(dest).query
    params = strict_query(q)
    if params is None:
        return 'redirect-query-not-strictly-encoded'
    want = [(k, v) for k, v in (strict_query(dq) or [])] + [(typ, None)] + ([('RelayState', rs)] if rs else [])
    if [k for k, _v in params] != [k for k, _v in want]:
        return 'redirect-parameters-created-or-lost:%s' % [k for k, _v in params]
    d = dict(params)
    if rs and d['RelayState'] != rs:
        return 'redirect-relaystate-altered'
    back = s.unravel(d[typ], BINDING_HTTP_REDIRECT)
    if (back if isinstance(back, bytes) else back.encode('utf-8')) != msg.encode('utf-8'):
        return 'redirect-message-not-byte-identical'
    return None


def check_post(msg, typ, rs, dest):
    s = sp()
    info = s.apply_binding(BINDING_HTTP_POST, msg, dest, rs, response=(typ == 'SAMLResponse'))
    r = read_form(info['data'])
    r0 = _c.get(('form0', typ))
    if r0 is None:
        r0 = read_form(s.apply_binding(BINDING_HTTP_POST, 'm', dest, '', response=(typ == 'SAMLResponse'))['data'])
        _c[('form0', typ)] = r0
    if r.forms != 1:
        return 'post-form-count-%d' % r.forms
    hidden = [i for i in r.inputs if i.get('type') == 'hidden']
    names = [i.get('name') for i in hidden]
    if names != [typ] + (['RelayState'] if rs else []):
        return 'post-fields-created-or-lost:%s' % names
    extra = list(r.tags)
    for t in r0.tags:
        if t in extra:
            extra.remove(t)
    if rs:
        it = ('input', ('name', 'type', 'value'))
        if it in extra:
            extra.remove(it)
    if extra:
        return 'post-markup-injected:%s' % (extra[:2],)
    vals = {i.get('name'): i.get('value') for i in hidden}
    if rs and vals['RelayState'] != rs:
        return 'post-relaystate-altered'
    try:
        if base64.b64decode(vals[typ]) != msg.encode('utf-8'):
            return 'post-message-not-byte-identical'
    except Exception:
        return 'post-message-not-base64'
    back = s.unravel(vals[typ], BINDING_HTTP_POST)
    if (back if isinstance(back, bytes) else back.encode('utf-8')) != msg.encode('utf-8'):
        return 'post-unravel-not-byte-identical'
    return None


def check_post_body(msg, typ, rs):
    from saml2_tophat.pack import http_post_message
    info = http_post_message(msg, rs, typ)
    params = strict_query(info['data'])
    if params is None:
        return 'postbody-not-strictly-encoded'
    if [k for k, _v in params] != [typ] + (['RelayState'] if rs else []):
        return 'postbody-parameters-created-or-lost'
    d = dict(params)
    if rs and d['RelayState'] != rs:
        return 'postbody-relaystate-altered'
    if base64.b64decode(d[typ]) != msg.encode('utf-8'):
        return 'postbody-message-altered'
    return None


def check_soap(msg, msgtype, binding):
    s = sp()
    kw = {}
    if binding == BINDING_PAOS:
        from saml2_tophat.profile import ecp
        kw['soap_headers'] = [ecp.RelayState(actor='http://schemas.xmlsoap.org/soap/actor/next', must_understand='1', text='rs<&>')]
    if binding == BINDING_PAOS:
        # a first packaging with another RelayState header, then the one that is examined
        from saml2_tophat.profile import ecp as _ecp
        s.apply_binding(binding, msg, 'https://idp.example/soap',
                        soap_headers=[_ecp.RelayState(actor='http://schemas.xmlsoap.org/soap/actor/next', must_understand='1', text='an-earlier-relay-state')])
    info = s.apply_binding(binding, msg, 'https://idp.example/soap', **kw)
    data = info['data']
    import defusedxml.ElementTree as DET
    try:
        envl = DET.fromstring(data)
    except Exception as e:
        return 'soap-envelope-not-well-formed:%s' % type(e).__name__
    if binding == BINDING_PAOS:
        heads = [h for c in envl if c.tag.endswith('}Header') for h in c if h.tag.endswith('}RelayState')]
        if len(heads) != 1 or heads[0].text != 'rs<&>':
            return 'paos-relay-state-header-altered:%r' % ([h.text for h in heads],)
    bodies = [c for c in envl if c.tag.endswith('}Body')]
    if len(bodies) != 1 or len(bodies[0]) != 1:
        return 'soap-body-shape'
    try:
        orig = DET.fromstring(msg.encode('utf-8'))
    except Exception:
        return None      # not an XML message: SOAP only carries XML
    if not same_element(bodies[0][0], orig):
        return 'soap-message-not-element-identical'
    back = s.unravel(data, BINDING_SOAP, msgtype)
    try:
        if not same_element(DET.fromstring(back), orig):
            return 'soap-unravel-not-element-identical'
    except Exception as e:
        return 'soap-unravel-failed:%s' % type(e).__name__
    return None


def check_soap_object(kind):
    """Object paths: pack.make_soap_enveloped_saml_thingy(instance) and soap.make_soap_enveloped_saml_thingy."""
    from saml2_tophat import samlp, pack, soap as soapmod
    import defusedxml.ElementTree as DET
    msg = forge.request(env.BASE, kind='LogoutRequest').replace('alice', 'al\nice &lt;&amp;&gt; é')
    inst = samlp.logout_request_from_string(msg)
    orig = DET.fromstring(msg.encode('utf-8'))
    if kind == 'pack':
        data = pack.make_soap_enveloped_saml_thingy(inst)
    else:
        data = soapmod.make_soap_enveloped_saml_thingy(inst)
    envl = DET.fromstring(data)
    body = [c for c in envl if c.tag.endswith('}Body')][0]
    if len(body) != 1 or not same_element(body[0], orig):
        return 'soap-object-path-not-element-identical'
    back = soapmod.parse_soap_enveloped_saml_logout_request(data)
    if not same_element(DET.fromstring(back), orig):
        return 'soap-object-path-parse-not-element-identical'
    return None


def check_artifact(msg, rs, idx):
    s = sp()
    art = s.use_artifact(msg, idx)
    raw = base64.b64decode(art)
    if len(raw) != 44 or raw[:2] != b'\x00\x04':
        return 'artifact-format'
    if raw[4:24] != hashlib.sha1(world.SP_X.encode()).digest():
        return 'artifact-sourceid'
    if s.artifact.get(art) != msg:
        return 'artifact-does-not-resolve-to-message'
    info = s.apply_binding(BINDING_ARTIFACT, art, 'https://idp.example/art', rs)
    # the same towards a destination that has a query of its own: its parameter stays, the artifact is a parameter
    info2 = s.apply_binding(BINDING_ARTIFACT, art, 'https://idp.example/art?tenant=a%20b', rs)
    p2 = strict_query(info2['url'].partition('?')[2])
    if p2 is None or [k for k, _v in p2] != ['tenant', 'SAMLart'] + (['RelayState'] if rs else []) or dict(p2)['tenant'] != 'a b' or dict(p2)['SAMLart'] != art:
        return 'artifact-url-parameters-created-or-lost:destination-with-query'
    q = info['url'].partition('?')[2]
    params = strict_query(q)
    if params is None:
        return 'artifact-url-not-strictly-encoded'
    if [k for k, _v in params] != ['SAMLart'] + (['RelayState'] if rs else []):
        return 'artifact-url-parameters-created-or-lost'
    d = dict(params)
    if d['SAMLart'] != art or (rs and d['RelayState'] != rs):
        return 'artifact-url-values-altered'
    return None


def check_raw_form(payload, typ, rs):
    """The POST form encoder called directly (pack.http_form_post_message / pack.factory) with a parameter name other than
    SAMLRequest/SAMLResponse: the value is carried as it is and must still be exactly one field value."""
    from saml2_tophat import pack
    for how in ('direct', 'factory'):
        if how == 'direct':
            info = pack.http_form_post_message(payload, DESTS[0], rs, typ)
        else:
            info = pack.factory(BINDING_HTTP_POST, payload, DESTS[0], rs, typ)
        r = read_form(info['data'])
        hidden = [i for i in r.inputs if i.get('type') == 'hidden']
        if [i.get('name') for i in hidden] != [typ] + (['RelayState'] if rs else []):
            return 'post-fields-created-or-lost:%s' % [i.get('name') for i in hidden]
        if any(sorted(i) != ['name', 'type', 'value'] for i in hidden):
            return 'post-markup-injected:attributes'
        if hidden[0].get('value') != payload:
            return 'post-value-altered'
        if rs and hidden[1].get('value') != rs:
            return 'post-relaystate-altered'
    return None


def check_many_artifacts(n):
    """n artifacts issued on one entity before any is resolved: every one still resolves to its own message."""
    _c.pop('sp', None)
    s = sp()
    arts = [(s.use_artifact('message-%d' % i, 1), 'message-%d' % i) for i in range(n)]
    _c.pop('sp', None)
    if len(set(a for a, _m in arts)) != n:
        return 'artifact-collision'
    for i, (a, m) in enumerate(arts):
        try:
            if s.artifact[a] != m:
                return 'artifact-does-not-resolve-to-message:%d-of-%d' % (i, n)
        except KeyError:
            return 'artifact-does-not-resolve-to-message:%d-of-%d-gone' % (i, n)
    return None


def guard(name, fn, *a):
    try:
        return (name, fn(*a))
    except Exception as e:
        import traceback
        return (name, 'encoder-or-decoder-raised:%s:%s' % (type(e).__name__, traceback.format_exc()[-300:]))


def evaluate(task):
    kind = task[0]
    env.Clock.set(env.BASE)
    try:
        if kind == 'rs':
            _k, rs, dest = task
            m = 'plain message'
            out = []
            out.append(guard('redirect', check_redirect, m, 'SAMLRequest', rs, dest))
            if '\r' not in rs:
                out.append(guard('post', check_post, m, 'SAMLRequest', rs, dest))
            out.append(guard('postbody', check_post_body, m, 'SAMLRequest', rs))
            out.append(guard('artifact', check_artifact, m, rs, 1))
            return out
        if kind == 'msg':
            _k, name, typ, msgtype, msg = task
            out = []
            for dest in DESTS:
                out.append(guard('redirect', check_redirect, msg, typ, 'rs', dest))
            out.append(guard('post', check_post, msg, typ, 'rs', DESTS[0]))
            out.append(guard('postbody', check_post_body, msg, typ, 'rs'))
            if msg.lstrip().startswith('<'):
                out.append(guard('soap', check_soap, msg, msgtype, BINDING_SOAP))
                out.append(guard('paos', check_soap, msg, msgtype, BINDING_PAOS))
            out.append(guard('artifact', check_artifact, msg, '', 0))
            return out
        if kind == 'raw':
            _k, payload = task
            return [guard('redirect', check_redirect, payload, 'SAMLRequest', '', DESTS[0]),
                    guard('post', check_post, payload, 'SAMLRequest', '', DESTS[0]),
                    guard('postbody', check_post_body, payload, 'SAMLRequest', '')]
        if kind == 'soapobj':
            return [guard('soap-object-%s' % task[1], check_soap_object, task[1])]
        if kind == 'rawform':
            return [guard('post-form-raw-value', check_raw_form, task[1], task[2], task[3])]
        if kind == 'manyart':
            return [guard('artifact-store', check_many_artifacts, task[1])]
    except Exception as e:
        import traceback
        return [('exception', 'encoder-or-decoder-raised:%s:%s' % (type(e).__name__, traceback.format_exc()[-300:]))]


def run(ctx):
    TMP[0] = ctx.tmp
    n = 2 if not ctx.thorough else 3
    rss = strings(n) + FIXED
    tasks = [('rs', rs, DESTS[i % 2]) for i, rs in enumerate(rss)]
    tasks += [('rs', rs, DESTS[1]) for rs in FIXED]
    msgs = messages()
    tasks += [('msg', name, typ, mt, m) for name, typ, mt, m in msgs]
    tasks += [('raw', chr(i)) for i in range(1, 256) if i != 13] + [('raw', 'x' * 65536), ('raw', '€' * 300)]
    tasks += [('raw', s) for s in strings(1)]
    tasks += [('raw', s) for s in deflate_lookalikes(3 if ctx.thorough else 2)]
    tasks += [('soapobj', 'pack'), ('soapobj', 'soap')]
    ascii_alph = [a for a in ALPH if all(ord(ch) < 128 for ch in a) and a not in ('\r', '\x01', '\x00')]
    raws = [''.join(t) for k in (1, 2) for t in itertools.product(ascii_alph, repeat=k)] + [f for f in FIXED if all(ord(ch) < 128 for ch in f)] + \
           ['a&lt;b&amp;c', '&#34;', 'AAAA"x', 'x" autofocus onfocus="alert(1)']
    tasks += [('rawform', p_, typ_, rs_) for p_ in raws for typ_, rs_ in (('SAMLart', ''), ('SAMLart', 'r"s<'))]
    tasks += [('manyart', n_) for n_ in (2, 129, 300, 1100)]
    res = ctx.pmap(evaluate, tasks)
    ctx.recheck(evaluate, tasks, res, n=24)
    n_ev = 0
    nontriv = set()
    per = {}
    for t, outs in zip(tasks, res):
        for enc, why in outs:
            n_ev += 1
            per[enc] = per.get(enc, 0) + 1
            nontriv.add((t[0], repr(t[1])[:40], enc))
            if why:
                key = {'kind': why.split(':')[0], 'encoder': enc, 'input_kind': t[0]}
                if t[0] == 'rs':
                    key['relay_state'] = t[1] if len(t[1]) < 80 else t[1][:20] + '...'
                    key['dest'] = t[2]
                elif t[0] == 'msg':
                    key['message'] = t[1]
                    key['message_has_newline_in_text'] = '\n' in t[4].split('?>', 1)[-1].strip()
                elif t[0] == 'raw':
                    key['payload'] = t[1] if len(t[1]) < 20 else 'len-%d' % len(t[1])
                elif t[0] == 'rawform':
                    key['payload'], key['parameter'], key['relay_state'] = t[1], t[2], t[3]
                elif t[0] == 'manyart':
                    key['count'] = t[1]
                ctx.violation(key, {'detail': why[:400]})
    return {
        'level': 'exploration',
        'coverage': {
            'evaluations': n_ev, 'distinct_nontrivial': len(nontriv), 'exhaustive': True,
            'rule': 'all RelayState strings of length <= %d over the %d-symbol hostile alphabet %r + %d fixed injection strings x {Redirect, POST form, POST body, artifact URL} x destinations with/without query; every library-produced message (requests/responses, signed and unsigned, with newlines and markup in text) x {Redirect, POST, POST body, SOAP string path, PAOS, artifact}; single characters U+0001..U+00FF and a 64 kB payload as message; SOAP object paths of pack and soap; the POST form encoder called directly / through pack.factory with another parameter name and every ASCII payload of length <= 2 over the alphabet; 2 / 129 / 300 / 1100 artifacts issued before any is resolved; independent readers: strict urlencoded reader, html.parser, defusedxml + structural element comparison' % (n, len(ALPH), ALPH, len(FIXED)),
            'samples': [{'task': [str(x)[:60] for x in tasks[i]], 'outcomes': res[i]} for i in (0, len(tasks) // 2)],
            'per_encoder': per, 'relay_states': len(rss), 'messages': [m[0] for m in msgs],
        },
        'assumptions': ["bare CR in RelayState is not checked through the HTML reader (HTML input preprocessing normalises it)",
                        'the URI binding and destinations with a fragment are outside the statement'],
    }


def replay(ctx, w):
    TMP[0] = ctx.tmp
    if w['input_kind'] == 'rs':
        for rs in strings(3) + FIXED:
            short = rs if len(rs) < 80 else rs[:20] + '...'
            if short == w['relay_state']:
                outs = evaluate(('rs', rs, w['dest']))
                return {'violation': any(y for e, y in outs if e == w['encoder']), 'observed': [o for o in outs if o[1]]}
    if w['input_kind'] == 'msg':
        for name, typ, mt, m in messages():
            if name == w['message']:
                outs = evaluate(('msg', name, typ, mt, m))
                return {'violation': any(y for e, y in outs if e == w['encoder']), 'observed': [o for o in outs if o[1]]}
    if w['input_kind'] == 'soapobj' or w['encoder'].startswith('soap-object'):
        outs = evaluate(('soapobj', w['encoder'].rsplit('-', 1)[1]))
        return {'violation': any(y for _e, y in outs)}
    if w['input_kind'] == 'raw' and not w['payload'].startswith('len-'):
        outs = evaluate(('raw', w['payload']))
        return {'violation': any(y for e, y in outs if e == w['encoder'])}
    if w['input_kind'] == 'rawform':
        outs = evaluate(('rawform', w['payload'], w['parameter'], w['relay_state']))
        return {'violation': any(y for _e, y in outs)}
    if w['input_kind'] == 'manyart':
        outs = evaluate(('manyart', w['count']))
        return {'violation': any(y for _e, y in outs)}
    return {'violation': False}
