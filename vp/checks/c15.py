"""C15 - redirect signatures bind the exact query and the signer's own key.

(a) op-sequence graph over obtain-signer / sign / apply_binding / verify steps of two real entities with different
keys; (b) exhaustive thread schedules (preemption-bounded) of concurrent sign/verify; (c) mutation table of a
signed query."""
import base64
import itertools
import os
from urllib.parse import urlsplit, parse_qsl, urlencode, quote

from vp import env, world, schedules

ALGS = {
    'sha1': 'http://www.w3.org/2000/09/xmldsig#rsa-sha1',
    'sha224': 'http://www.w3.org/2001/04/xmldsig-more#rsa-sha224',
    'sha256': 'http://www.w3.org/2001/04/xmldsig-more#rsa-sha256',
    'sha384': 'http://www.w3.org/2001/04/xmldsig-more#rsa-sha384',
    'sha512': 'http://www.w3.org/2001/04/xmldsig-more#rsa-sha512',
}
MSG = '<samlp:AuthnRequest xmlns:samlp="urn:oasis:names:tc:SAML:2.0:protocol" ID="id-1" Version="2.0"/>'
DEST = 'https://idpa.example/sso'
ENT = {}          # name -> (entity, keyname)
TMP = [None]
NAMES = ('e1', 'e2', 'e3')
KEYOF = {'e1': 'spX', 'e2': 'idpA', 'e3': 'spY'}


def entities():
    if not ENT:
        ENT['e1'] = world.make_sp(TMP[0])
        ENT['e2'] = world.make_idp(TMP[0])
        ENT['e3'] = world.make_sp(TMP[0], entity_id=world.SP_Y, key_name='spY', enc=())
    return ENT


def hash_for(sigalg):
    from cryptography.hazmat.primitives import hashes
    return {'sha1': hashes.SHA1, 'sha224': hashes.SHA224, 'sha256': hashes.SHA256, 'sha384': hashes.SHA384,
            'sha512': hashes.SHA512}[[k for k, v in ALGS.items() if v == sigalg][0]]()


def independent_verify(url, keyname):
    """Reference verification straight from the URL's raw query octets (SAML bindings 3.4.4.1)."""
    from cryptography.hazmat.primitives.asymmetric import padding
    q = urlsplit(url).query
    raw = {}
    for part in q.split('&'):
        k, _, v = part.partition('=')
        raw.setdefault(k, []).append(v)
    if any(len(v) != 1 for v in raw.values()):
        return False
    typ = 'SAMLRequest' if 'SAMLRequest' in raw else 'SAMLResponse'
    order = [typ, 'RelayState', 'SigAlg']
    if 'Signature' not in raw or 'SigAlg' not in raw:
        return False
    octets = '&'.join('%s=%s' % (k, raw[k][0]) for k in order if k in raw).encode('ascii')
    from urllib.parse import unquote
    sigalg = unquote(raw['SigAlg'][0])
    if sigalg not in ALGS.values():
        return False
    try:
        sig = base64.b64decode(unquote(raw['Signature'][0]))
        world.pub(keyname).verify(sig, octets, padding.PKCS1v15(), hash_for(sigalg))
        return True
    except Exception:
        return False


def lib_verify(url, verifier_name, cert_keyname):
    """The library's verify_redirect_signature as an application calls it: parsed query dict + certificate."""
    from saml2_tophat.sigver import verify_redirect_signature
    q = dict(parse_qsl(urlsplit(url).query, keep_blank_values=True))
    ent = entities()[verifier_name]
    try:
        return bool(verify_redirect_signature(q, ent.sec.sec_backend, world.cert_b64(cert_keyname)))
    except Exception as e:
        return 'EXC:%s' % type(e).__name__


def location(info):
    return dict(info['headers'])['Location']


# ------------------------------------------------------------ (a) op sequences

class OpWorld(object):
    def __init__(self):
        self.held = {}      # entity -> (alg, signer)
        self.urls = []      # (owner, alg, url)


def op_alphabet(w, names, algs):
    ops = []
    for e in names:
        for a in algs:
            ops.append(('g', e, a))
            ops.append(('b', e, a))
        if e in w.held:
            ops.append(('s', e))
    for i, (_o, _a, _u) in enumerate(w.urls[:2]):
        for j in names:
            ops.append(('v', j, i))
    return ops


def do_op(w, op):
    """Returns list of violations."""
    from saml2_tophat import pack
    from saml2_tophat import BINDING_HTTP_REDIRECT
    ents = entities()
    bad = []
    k = op[0]
    if k == 'g':
        _k, e, a = op
        s = ents[e].sec.sec_backend.get_signer(ALGS[a])
        w.held[e] = (a, s)
    elif k == 's':
        e = op[1]
        a, s = w.held[e]
        info = pack.http_redirect_message(MSG, DEST, 'rs-' + e, 'SAMLRequest', ALGS[a], s)
        w.urls.append((e, a, location(info)))
    elif k == 'b':
        _k, e, a = op
        info = ents[e].apply_binding(BINDING_HTTP_REDIRECT, MSG, DEST, 'rs-' + e, sign=True, sigalg=ALGS[a])
        w.urls.append((e, a, location(info)))
    elif k == 'v':
        _k, j, i = op
        owner, a, url = w.urls[i]
        for cert_owner in NAMES[:len(entities())]:
            got = lib_verify(url, j, KEYOF[cert_owner])
            want = (cert_owner == owner)
            if got is not want:
                bad.append('library-verify-under-%s-cert=%s' % ('own' if want else 'other', got))
    for owner, a, url in w.urls:
        for n in NAMES:
            ok = independent_verify(url, KEYOF[n])
            if ok and n != owner:
                bad.append('url-verifies-under-other-entitys-certificate')
            if not ok and n == owner:
                bad.append('url-does-not-verify-under-requesters-certificate')
    return bad


def canon(w):
    return repr((sorted((e, a) for e, (a, _s) in w.held.items()),
                 [(o, a) for o, a, _u in w.urls],
                 sorted((e, a, [id(x[1]) for x in w.held.values()].index(id(s))) for e, (a, s) in w.held.items())))


CFG = {}


def replay_ops(hist):
    w = OpWorld()
    for op in hist:
        bad = do_op(w, tuple(op))
        if bad:
            return w, bad
    return w, []


def expand(hist):
    names, algs = CFG['names'], CFG['algs']
    w, bad = replay_ops(hist)
    assert not bad, (hist, bad)
    kids, viol = [], []
    ops = op_alphabet(w, names, algs)
    for op in ops:
        w2, _b = replay_ops(hist)
        b = do_op(w2, op)
        h2 = list(hist) + [list(op)]
        if b:
            viol.append((h2, sorted(set(b))))
        else:
            kids.append((h2, canon(w2)))
    return kids, viol, len(ops)


# ------------------------------------------------------------ (b) schedules

CRITICAL = {'get_signer', 'sign', 'verify', 'http_redirect_message', 'apply_binding', 'verify_redirect_signature',
            'key_sign', 'key_verify', 'use_http_get', 'import_rsa_key_from_file'}
SCEN = {}
WARM = set()


def scenario_bodies(name):
    from saml2_tophat import BINDING_HTTP_REDIRECT
    ents = entities()
    a = ALGS['sha256']
    if name in ('sign-sign-same-alg', 'sign-sign-diff-alg'):
        a2 = a if name == 'sign-sign-same-alg' else ALGS['sha1']

        def mk():
            return [lambda: location(ents['e1'].apply_binding(BINDING_HTTP_REDIRECT, MSG, DEST, 'rs-e1', sign=True, sigalg=a)),
                    lambda: location(ents['e2'].apply_binding(BINDING_HTTP_REDIRECT, MSG, DEST, 'rs-e2', sign=True, sigalg=a2))]

        def check(res):
            bad = []
            for i, owner in enumerate(('e1', 'e2')):
                r = res[i]
                if r[0] != 'ok':
                    bad.append('thread-%d-raised-%s' % (i, r[1]))
                    continue
                for n in ('e1', 'e2'):
                    ok = independent_verify(r[1], KEYOF[n])
                    if ok and n != owner:
                        bad.append('url-of-%s-verifies-under-other-key' % owner)
                    if not ok and n == owner:
                        bad.append('url-of-%s-not-under-own-key' % owner)
            return bad
        return mk, check
    if name == 'verify-verify':
        url = SCEN.setdefault('url1', location(ents['e1'].apply_binding(BINDING_HTTP_REDIRECT, MSG, DEST, 'rs-e1', sign=True, sigalg=a)))

        def mk():
            return [lambda: lib_verify(url, 'e2', KEYOF['e2']),     # wrong certificate: must be False
                    lambda: lib_verify(url, 'e3', KEYOF['e1'])]     # right certificate: must be True

        def check(res):
            bad = []
            if res[0] != ('ok', False):
                bad.append('verify-under-other-certificate-returned-%s' % (res[0][1],))
            if res[1] != ('ok', True):
                bad.append('verify-under-own-certificate-returned-%s' % (res[1][1],))
            return bad
        return mk, check
    if name == 'sign-verify':
        url = SCEN.setdefault('url2', location(ents['e2'].apply_binding(BINDING_HTTP_REDIRECT, MSG, DEST, 'rs-e2', sign=True, sigalg=a)))

        def mk():
            return [lambda: location(ents['e1'].apply_binding(BINDING_HTTP_REDIRECT, MSG, DEST, 'rs-e1', sign=True, sigalg=a)),
                    lambda: lib_verify(url, 'e3', KEYOF['e2'])]

        def check(res):
            bad = []
            if res[0][0] != 'ok':
                bad.append('sign-thread-raised-%s' % res[0][1])
            else:
                if not independent_verify(res[0][1], 'spX'):
                    bad.append('url-of-e1-not-under-own-key')
                for n in ('idpA', 'spY'):
                    if independent_verify(res[0][1], n):
                        bad.append('url-of-e1-verifies-under-other-key')
            if res[1] != ('ok', True):
                bad.append('concurrent-verify-returned-%s' % (res[1][1],))
            return bad
        return mk, check
    if name == 'construct-construct':
        # two entities are being set up at the same time (their security contexts are built from their own
        # configurations), then each signs: whatever the other does meanwhile, each ends up with its own key
        from saml2_tophat.sigver import security_context
        from saml2_tophat.pack import http_redirect_message
        confs = {'e1': ents['e1'].config, 'e2': ents['e2'].config}

        def body(n):
            def f():
                sec = security_context(confs[n])
                signer = sec.sec_backend.get_signer(a)
                return location(http_redirect_message(MSG, DEST, 'rs-' + n, 'SAMLRequest', sigalg=a, signer=signer))
            return f

        def mk():
            return [body('e1'), body('e2')]

        def check(res):
            bad = []
            for i, owner in enumerate(('e1', 'e2')):
                r = res[i]
                if r[0] != 'ok':
                    bad.append('thread-%d-raised-%s' % (i, r[1]))
                    continue
                for n in ('e1', 'e2'):
                    ok = independent_verify(r[1], KEYOF[n])
                    if ok and n != owner:
                        bad.append('url-of-%s-verifies-under-other-key' % owner)
                    if not ok and n == owner:
                        bad.append('url-of-%s-not-under-own-key' % owner)
            return bad
        return mk, check
    raise ValueError(name)


def pkg_dir():
    import saml2_tophat
    return os.path.dirname(saml2_tophat.__file__)


def sched_task(t):
    name, bound, root = t
    mk, check = scenario_bodies(name)
    if name not in WARM:
        for b in mk():
            b()
        schedules.run_schedule(mk, [], pkg_dir(), CRITICAL)
        WARM.add(name)
    n, bad, npts, capped = schedules.explore(mk, check, bound, pkg_dir(), CRITICAL, roots=[root])
    out = []
    for choices, why, last in bad:
        sw = [[i, c] for i, c in enumerate(choices) if c]
        out.append((sw, sorted(set(why)), [str(x) for x in last]))
    return name, n, out, npts


def compress(choices):
    return [[i, c] for i, c in enumerate(choices) if c]


def expand_switches(sw):
    if not sw:
        return []
    n = max(i for i, _c in sw) + 1
    pre = [0] * n
    for i, c in sw:
        pre[i] = c
    return pre


# ------------------------------------------------------------ (c) mutation table

def mutation_table(algs):
    from saml2_tophat import BINDING_HTTP_REDIRECT
    ents = entities()
    out = []
    relays = ['rs', 'a b&c=d', 'https://sp.example/return?next=%2Fhome', 'x%26Signature%3Dy', 'é€', '',
              "~user/-._", "*!'()", '+ +', '/?:@;,$']       # unreserved and sub-delimiter characters that URL encoders treat differently
    for a, is_resp in itertools.product(algs, (False, True)):
        for rs in relays:
            url = location(ents['e1'].apply_binding(BINDING_HTTP_REDIRECT, MSG if not is_resp else MSG.replace('AuthnRequest', 'Response'), DEST, rs,
                                                    sign=True, sigalg=ALGS[a], response=is_resp))
            q = parse_qsl(urlsplit(url).query, keep_blank_values=True)
            names = [k for k, _v in q]
            base = dict(q)
            muts = [('none', dict(base))]
            for k in names:
                d = dict(base)
                v = d[k]
                d[k] = v[:-1] + ('A' if v[-1:] != 'A' else 'B')
                muts.append(('change-%s' % k, d))
                d = dict(base)
                del d[k]
                muts.append(('remove-%s' % k, d))
            for k1, k2 in itertools.combinations([k for k in names if k != 'Signature'], 2):
                d = dict(base)
                d[k1], d[k2] = d[k2], d[k1]
                muts.append(('swap-%s-%s' % (k1, k2), d))
            for a2 in ALGS:
                if a2 != a:
                    d = dict(base)
                    d['SigAlg'] = ALGS[a2]
                    muts.append(('sigalg-%s' % a2, d))
            for bad_alg in ('http://www.w3.org/2000/09/xmldsig#dsa-sha1', 'http://www.w3.org/2001/04/xmldsig-more#rsa-md5', '', 'rsa-sha256'):
                d = dict(base)
                d['SigAlg'] = bad_alg
                muts.append(('sigalg-unsupported-%r' % bad_alg, d))
            if 'RelayState' not in base:
                d = dict(base)
                d['RelayState'] = 'added'
                muts.append(('add-RelayState', d))
            else:
                d = dict(base)
                d['RelayState'] = quote(d['RelayState'], safe='')
                if d['RelayState'] != base['RelayState']:
                    muts.append(('relaystate-percent-encoded-once-more', d))
                from urllib.parse import unquote
                d = dict(base)
                d['RelayState'] = unquote(d['RelayState'])
                if d['RelayState'] != base['RelayState']:
                    muts.append(('relaystate-percent-decoded', d))
            d = dict(base)
            if 'SAMLRequest' in d:
                d['SAMLResponse'] = d.pop('SAMLRequest')
                muts.append(('request-relabelled-as-response', d))
            else:
                d['SAMLRequest'] = d.pop('SAMLResponse')
                muts.append(('response-relabelled-as-request', d))
                d = dict(base)
                from saml2_tophat.s_utils import deflate_and_base64_encode
                other = deflate_and_base64_encode('<samlp:Response xmlns:samlp="urn:oasis:names:tc:SAML:2.0:protocol" ID="forged" Version="2.0"/>')
                d['SAMLResponse'] = other.decode() if isinstance(other, bytes) else other
                muts.append(('message-replaced-by-another-valid-encoding', d))
            out.append((a + ('/response' if is_resp else ''), rs, url, muts))
    return out


def eval_mutations(row):
    from saml2_tophat.sigver import verify_redirect_signature
    a, rs, url, muts = row
    ents = entities()
    res = []
    base = dict(muts[0][1])
    order = ['SAMLRequest' if 'SAMLRequest' in base else 'SAMLResponse', 'RelayState', 'SigAlg']
    if not independent_verify(url, 'spX') or independent_verify(url, 'idpA'):
        res.append(('produced-url', {}, ['url-does-not-verify-under-requesters-certificate-only']))
    signed = '&'.join(urlencode({k: base[k]}) for k in order if k in base)
    for name, d in muts:
        typ = 'SAMLRequest' if 'SAMLRequest' in d else 'SAMLResponse'
        o2 = [typ, 'RelayState', 'SigAlg']
        now = '&'.join(urlencode({k: d[k]}) for k in o2 if k in d)
        unchanged = (now == signed and d.get('Signature') == base.get('Signature') and d.get('SigAlg') in ALGS.values())
        outs = {}
        for cert in ('spX', 'idpA'):
            try:
                r = verify_redirect_signature(dict(d), ents['e2'].sec.sec_backend, world.cert_b64(cert))
                outs[cert] = bool(r) if r is not None else None
            except Exception as e:
                outs[cert] = 'EXC:%s' % type(e).__name__
        bad = []
        if outs['idpA'] is True:
            bad.append('verifies-under-other-certificate')
        if unchanged and outs['spX'] is not True:
            bad.append('unchanged-signed-query-does-not-verify')
        if not unchanged and outs['spX'] is True:
            bad.append('changed-query-still-verifies')
        res.append((name, outs, bad))
    # the same unchanged parameters in every order a receiving framework may present them in
    keys = list(base)
    for n, perm in enumerate(itertools.permutations(keys)):
        if list(perm) == keys:
            continue
        d = {k: base[k] for k in perm}
        try:
            r = verify_redirect_signature(dict(d), ents['e2'].sec.sec_backend, world.cert_b64('spX'))
            r = bool(r) if r is not None else None
        except Exception as e:
            r = 'EXC:%s' % type(e).__name__
        res.append(('parameter-order-%s' % '-'.join(k[:4] for k in perm), {'spX': r}, [] if r is True else ['unchanged-signed-query-does-not-verify']))
    # a query signed with the requester's real key over a string that names an identifier outside the supported set
    # (other namespace, fragment only, other letter case, trailing blank): never verifies
    from cryptography.hazmat.primitives.asymmetric import padding as _pad
    from cryptography.hazmat.primitives import hashes as _h
    frag = {'rsa-sha1': _h.SHA1, 'rsa-sha224': _h.SHA224, 'rsa-sha256': _h.SHA256, 'rsa-sha384': _h.SHA384, 'rsa-sha512': _h.SHA512}
    for bad_alg in ('http://www.w3.org/2000/09/xmldsig#rsa-sha256', 'urn:example:not-an-algorithm#rsa-sha1', 'rsa-sha1', '#rsa-sha224',
                    'HTTP://WWW.W3.ORG/2001/04/XMLDSIG-MORE#RSA-SHA256', 'http://www.w3.org/2001/04/xmldsig-more#rsa-sha256 ',
                    'http://www.w3.org/2001/04/xmldsig-more#rsa-sha512#rsa-sha512'):
        d = {k: v for k, v in base.items() if k != 'Signature'}
        d['SigAlg'] = bad_alg
        typ = 'SAMLRequest' if 'SAMLRequest' in d else 'SAMLResponse'
        octets = '&'.join(urlencode({k: d[k]}) for k in (typ, 'RelayState', 'SigAlg') if k in d).encode('ascii')
        hcls = frag.get(bad_alg.strip().rsplit('#', 1)[-1].lower(), _h.SHA256)
        d['Signature'] = base64.b64encode(world.priv('spX').sign(octets, _pad.PKCS1v15(), hcls())).decode()
        try:
            r = verify_redirect_signature(dict(d), ents['e2'].sec.sec_backend, world.cert_b64('spX'))
            r = bool(r) if r is not None else None
        except Exception as e:
            r = 'EXC:%s' % type(e).__name__
        res.append(('signed-over-unsupported-identifier-%r' % bad_alg, {'spX': r}, ['unsupported-algorithm-verifies'] if r is True else []))
    # candidate certificates that are no certificates, checked by the very entity that signed (its own key must never
    # stand in for the one it was asked to check against)
    good = world.cert_b64('spX')
    for label, junk in (('junk', 'bm90IGEgY2VydGlmaWNhdGU='), ('truncated', good[:len(good) // 2]), ('pem-armour', '-----BEGIN CERTIFICATE-----' + good),
                        ('other-garbage', 'AAAA'), ('whitespace', '  ')):
        try:
            r = verify_redirect_signature(dict(base), ents['e1'].sec.sec_backend, junk)
            r = bool(r) if r is not None else None
        except Exception as e:
            r = 'EXC:%s' % type(e).__name__
        res.append(('candidate-certificate-%s' % label, {'signer-as-verifier': r}, ['verifies-under-other-certificate'] if r is True else []))
    return a, rs, res


# ------------------------------------------------------------ (d) key sizes

KEYSIZES = ('rsa1024', 'rsa1025', 'rsa2047', 'rsa3072')


def eval_keysize(task):
    """An entity whose signing key has the given modulus length (also lengths that are no multiple of 8): its signed
    redirect URL verifies under its own certificate (independent verifier and the library's), under no other."""
    from saml2_tophat import BINDING_HTTP_REDIRECT
    from saml2_tophat.sigver import verify_redirect_signature
    kn, a = task
    ents = entities()
    if ('ks', kn) not in ENT:
        ENT[('ks', kn)] = world.make_sp(TMP[0], entity_id='urn:vp:' + kn, key_name=kn, enc=())
    e = ENT[('ks', kn)]
    bad = []
    for is_resp in (False, True):
        url = location(e.apply_binding(BINDING_HTTP_REDIRECT, MSG if not is_resp else MSG.replace('AuthnRequest', 'Response'), DEST, 'rs k',
                                       sign=True, sigalg=ALGS[a], response=is_resp))
        if not independent_verify(url, kn):
            bad.append('url-does-not-verify-under-requesters-certificate')
        if independent_verify(url, 'spX'):
            bad.append('url-verifies-under-other-certificate')
        q = dict(parse_qsl(urlsplit(url).query, keep_blank_values=True))
        for cert, want in ((kn, True), ('spX', False), ('rsa2047' if kn != 'rsa2047' else 'rsa1025', False)):
            try:
                r = bool(verify_redirect_signature(dict(q), ents['e2'].sec.sec_backend, world.cert_b64(cert)))
            except Exception as ex:
                r = 'EXC:%s' % type(ex).__name__
            if r is not want:
                bad.append('library-verification-under-%s-certificate-returned-%s' % ('own' if want else 'another', r))
    return kn, a, sorted(set(bad))


def eval_keyfile(task):
    """An entity is built from a key file; the file is replaced on disk (a roll-over staged for the next restart)
    before the entity signs for the first time: the URL must verify under the certificate the entity was built with."""
    import shutil
    from saml2_tophat import BINDING_HTTP_REDIRECT
    how, a = task
    d = os.path.join(TMP[0], 'kf-%s-%s-%d' % (how, a, os.getpid()))
    os.makedirs(d, exist_ok=True)
    kf = os.path.join(d, 'entity.key')
    shutil.copy(world.key('spX'), kf)
    cwd = os.getcwd()
    bad = []
    try:
        if how == 'relative-path-then-chdir':
            os.chdir(d)
            top = {'key_file': 'entity.key'}
        else:
            top = {'key_file': kf}
        e = world.make_sp(TMP[0], entity_id='urn:vp:kf', enc=(), top=top)
        if how == 'replaced':
            shutil.copy(world.key('idpA'), kf)
        elif how == 'removed':
            os.unlink(kf)
        else:
            d2 = os.path.join(d, 'other')
            os.makedirs(d2, exist_ok=True)
            shutil.copy(world.key('idpA'), os.path.join(d2, 'entity.key'))
            os.chdir(d2)
        try:
            url = location(e.apply_binding(BINDING_HTTP_REDIRECT, MSG, DEST, 'rs', sign=True, sigalg=ALGS[a]))
        except Exception as ex:
            return how, a, ['signing-failed-after-key-file-changed:%s' % type(ex).__name__]
        if not independent_verify(url, 'spX'):
            bad.append('url-does-not-verify-under-requesters-certificate')
        if independent_verify(url, 'idpA'):
            bad.append('url-verifies-under-other-certificate')
    finally:
        os.chdir(cwd)
        shutil.rmtree(d, ignore_errors=True)
    return how, a, bad


# ------------------------------------------------------------------- run

def run(ctx):
    TMP[0] = ctx.tmp
    entities()
    names = ('e1', 'e2') if not ctx.thorough else ('e1', 'e2', 'e3')
    algs = ('sha1', 'sha256') if not ctx.thorough else tuple(ALGS)
    CFG['names'], CFG['algs'] = names, algs if not ctx.thorough else ('sha1', 'sha256')
    depth = 4 if not ctx.thorough else 5
    # (a) op-sequence BFS
    seen = {canon(OpWorld()): []}
    frontier = [[]]
    transitions = 0
    by_depth = [1]
    for d in range(depth):
        res = ctx.pmap(expand, frontier, chunksize=4)
        nxt = []
        for kids, viol, nops in res:
            transitions += nops
            for hist, why in viol:
                for y in why:
                    ctx.violation({'kind': 'ops', 'why': y, 'ops': hist, 'shape': [o[0] for o in hist]}, {})
            for hist, key in kids:
                if len(hist) <= 2:
                    key = repr(hist)      # short histories are never merged (exposes hidden implementation state)
                if key not in seen:
                    seen[key] = hist
                    nxt.append(hist)
        by_depth.append(len(nxt))
        frontier = nxt
    # (b) schedules
    bound = 1 if not ctx.thorough else 2
    scen = ['sign-sign-same-alg', 'sign-sign-diff-alg', 'verify-verify', 'sign-verify', 'construct-construct']
    sched_n = {}
    tasks = []
    points = {}
    for name in scen:
        mk, check = scenario_bodies(name)
        for b in mk():
            b()                                                   # warm-up: one-time initialisation (lazy imports, caches)
        schedules.run_schedule(mk, [], pkg_dir(), CRITICAL)       # ... also under the tracer
        s, res = schedules.run_schedule(mk, [], pkg_dir(), CRITICAL)
        why = check(res)
        sched_n[name] = 1
        points[name] = len(s.points)
        if why:
            ctx.violation({'kind': 'schedule', 'scenario': name, 'switches': [], 'why': why[0]}, {})
        # determinism of the controlled execution: same schedule twice -> same trace
        s2, res2 = schedules.run_schedule(mk, list(s.choices), pkg_dir(), CRITICAL)
        if [w for w in s.trace_log] != [w for w in s2.trace_log] or [r[0] for r in res] != [r[0] for r in res2]:
            from vp.runner import HarnessError
            raise HarnessError('schedule replay not deterministic in scenario %s' % name)
        b = bound if (name in ('sign-sign-same-alg', 'verify-verify') or not ctx.thorough) else 1
        for root in schedules.children(s, 0, b):
            tasks.append((name, b, root))
    sres = ctx.pmap(sched_task, tasks, chunksize=1)
    for name, n, bad, npts in sres:
        sched_n[name] += n
        for sw, why, last in bad:
            ctx.violation({'kind': 'schedule', 'scenario': name, 'switches': sw, 'why': why[0], 'preemptions': len(sw)},
                          {'where_last_switch': last})
    # (c) mutation table
    rows = mutation_table(algs)
    mres = ctx.pmap(eval_mutations, rows, chunksize=1)
    n_mut = 0
    for a, rs, res in mres:
        for name, outs, bad in res:
            n_mut += 1
            for y in bad:
                ctx.violation({'kind': 'mutation', 'why': y, 'mutation': name, 'alg': a, 'relay_state': rs}, {'verdicts': outs})
    # (d) key sizes
    ktasks = [(kn, a) for kn in KEYSIZES for a in ALGS]
    n_ks = 0
    for kn, a, bad in ctx.pmap(eval_keysize, ktasks, chunksize=2):
        n_ks += 1
        for y in bad:
            ctx.violation({'kind': 'keysize', 'why': y, 'key': kn, 'alg': a}, {})
    for how, a, bad in ctx.pmap(eval_keyfile, [(h, a) for h in ('replaced', 'removed', 'relative-path-then-chdir') for a in list(ALGS)[:2]], chunksize=1):
        n_ks += 1
        for y in bad:
            ctx.violation({'kind': 'keyfile', 'why': y, 'how': how, 'alg': a}, {})
    n_mut += n_ks
    total_sched = sum(sched_n.values())
    return {
        'level': 'model_checking',
        'coverage': {
            'states': len(seen) + total_sched, 'transitions': transitions + total_sched + n_mut,
            'traces_validated_against_impl': transitions + total_sched + n_mut,
            'samples': [{'ops': frontier[len(frontier) // 2] if frontier else []},
                        {'schedule_scenarios': scen, 'schedules_per_scenario': sched_n, 'scheduling_points_per_execution': points}],
            'exhaustive': True, 'op_sequence_states': len(seen), 'op_sequence_depth': depth, 'op_states_by_depth': by_depth,
            'schedules': total_sched, 'preemption_bound': bound, 'preemption_bound_note': 'thorough: bound 2 for sign||sign(same alg) and verify||verify, bound 1 for the two control scenarios', 'query_mutations': n_mut,
            'rule': '(a) BFS over all sequences (depth %d) of get_signer / sign-with-held-signer / apply_binding(REDIRECT, sign=True) / verify_redirect_signature by %d real entities with different keys, merged by (held signers and their object sharing, URLs produced); after every step every produced URL must verify (independent verifier over the raw query octets) under its requester\'s certificate and no other. (b) every thread schedule with <= %d preemptions of 5 two-thread scenarios (sign||sign same/different algorithm, verify||verify, sign||verify, construct||construct: two security contexts built concurrently, then each signs), scheduling points = every source line in the package + every bytecode inside %s. (c) complete single-parameter mutation table of a signed query for every algorithm and 6 RelayStates. (d) signing keys of 1024, 1025, 2047 and 3072 bits x every algorithm x request/response; the key file replaced / removed / shadowed by a relative path after construction; every order of the query parameters at verification; five non-certificates as candidate certificate with the signer itself as verifier.' % (depth, len(names), bound, sorted(CRITICAL)),
        },
        'assumptions': ['CPython GIL: a single bytecode is atomic; C-level code (cryptography, urlencode internals) is not interleaved',
                        'no free-running race detector exists for Python; opcode-level points inside the critical functions stand in for it'],
    }


def replay(ctx, w):
    TMP[0] = ctx.tmp
    entities()
    if w['kind'] == 'ops':
        _w, bad = replay_ops(w['ops'])
        return {'violation': bool(bad), 'why': bad}
    if w['kind'] == 'schedule':
        mk, check = scenario_bodies(w['scenario'])
        s, res = schedules.run_schedule(mk, expand_switches(w['switches']), pkg_dir(), CRITICAL)
        why = check(res)
        return {'violation': bool(why), 'why': why}
    if w['kind'] == 'keysize':
        _k, _a, bad = eval_keysize((w['key'], w['alg']))
        return {'violation': bool(bad), 'why': bad}
    rows = mutation_table([w['alg'].split('/')[0]])
    rows = [r for r in rows if r[0] == w['alg']]
    for row in rows:
        if row[1] == w['relay_state']:
            _a, _rs, res = eval_mutations(row)
            for name, outs, bad in res:
                if name == w['mutation']:
                    return {'violation': bool(bad), 'why': bad, 'verdicts': outs}
    return {'violation': False}
