"""C18 - name identifiers map to one principal, stably, without cross-SP linkage.

Op-sequence state graph over a real IdentDB against a reference two-way map (BFS, canonical-state dedup), plus the
complete encoding table for code()/decode()."""
import itertools
import os

from vp import env

PERSISTENT = 'urn:oasis:names:tc:SAML:2.0:nameid-format:persistent'
TRANSIENT = 'urn:oasis:names:tc:SAML:2.0:nameid-format:transient'
EMAIL = 'urn:oasis:names:tc:SAML:1.1:nameid-format:emailAddress'
FMT = {'P': PERSISTENT, 'T': TRANSIENT, 'E': EMAIL}
ATTR = ["name_qualifier", "sp_name_qualifier", "format", "sp_provided_id", "text"]


def fields(n):
    return tuple((getattr(n, a, None) or None) for a in ATTR)


class Ref(object):
    """Reference: live identifiers text -> (user, fields); order of issue kept per user."""

    def __init__(self):
        self.live = {}        # text -> [user, fields(list)]
        self.order = []       # texts in order of (re-)storage
        self.ever = set()
        self.withdrawn = {}   # text -> fields at withdrawal

    def issue(self, user, n):
        t = n.text
        self.live[t] = [user, list(fields(n))]
        self.order.append(t)
        self.ever.add(t)

    def of_user(self, user):
        return [t for t in self.order if t in self.live and self.live[t][0] == user]

    def withdraw(self, t):
        if t in self.live:
            self.withdrawn[t] = self.live[t][1]
            del self.live[t]
            self.order = [x for x in self.order if x != t]


class World(object):
    def __init__(self, backend='dict', path=None):
        from saml2_tophat.ident import IdentDB
        env.reset_rng()
        self.path = path
        if backend == 'dict':
            self.db = IdentDB({}, domain='example.org')
        else:
            for ext in ('', '.db', '.dat', '.dir', '.bak'):
                try:
                    os.unlink(path + ext)
                except OSError:
                    pass
            self.db = IdentDB(path, domain='example.org')
        self.ref = Ref()
        self.ids = []         # NameID objects ever returned (copies of fields), issue order

    def close(self):
        self.db.close()


def mk_nameid(f):
    from saml2_tophat.saml import NameID
    return NameID(name_qualifier=f[0], sp_name_qualifier=f[1], format=f[2], sp_provided_id=f[3], text=f[4])


def canon_ids(w):
    """Canonical order of all identifiers ever seen: per user (sorted) in storage order, then withdrawn by fields."""
    out = []
    for u in ('u1', 'u2'):
        out.extend(w.ref.of_user(u))
    wd = sorted(w.ref.withdrawn.items(), key=lambda kv: (tuple(str(x) for x in kv[1][:4])))
    out.extend(t for t, _f in wd if t not in out)
    return out


def canon_key(w):
    ids = canon_ids(w)
    ren = {t: 'N%d' % i for i, t in enumerate(ids)}

    def rn(s):
        for t, r in ren.items():
            s = s.replace(t, r)
        return s
    try:
        raw = sorted((rn(str(k)), rn(str(v))) for k, v in dict(w.db.db).items())
    except Exception:
        raw = sorted((rn(str(k)), rn(str(w.db.db[k]))) for k in w.db.db.keys())
    refk = [(ren[t], w.ref.live[t][0], tuple(w.ref.live[t][1][:4])) for t in ids if t in w.ref.live]
    wdk = [(ren[t], tuple(w.ref.withdrawn[t][:4])) for t in ids if t in w.ref.withdrawn and t not in w.ref.live]
    return repr((raw, refk, wdk))


def enabled_ops(w, users, sps, nqs, fmts):
    ops = []
    for u in users:
        for sp in tuple(sps) + ('',):
            for nq in nqs:
                ops.append(('transient', u, sp, nq))
                ops.append(('persistent', u, sp, nq))
        for sp in sps:
            for f in fmts:
                ops.append(('issue', u, sp, f))
                ops.append(('construct', u, sp, f))
            # a login the way Server does it, with a NameIDPolicy whose SPNameQualifier (an affiliation) is not the SP
            ops.append(('issue', u, sp, 'P', 'affil'))
        ops.append(('remove_local', u))
        # an identifier supplied from outside (store()), with and without surrounding white space; a text is stored
        # at most once in a history (double storage is the subject of the removal layer below)
        for x in EXT:
            if x not in w.ref.ever:
                ops.append(('store', u, x))
    ids = canon_ids(w)
    for i in range(len(ids)):
        ops.append(('remove_remote', i))
        ops.append(('remove_remote_partial', i))
        ops.append(('manage_partial', i))
        ops.append(('manage', i, 'new'))
        ops.append(('manage', i, 'terminate'))
        for sp in sps:
            ops.append(('map', i, 'P', sp, 'true'))
            ops.append(('map', i, 'P', sp, 'false'))
    ops.append(('manage', -1, 'new'))        # never-issued identifier
    ops.append(('remove_remote', -1))
    return ops


NEVER = (None, 'spA', PERSISTENT, None, 'never-issued-text')
EXT = ('ext-4711', ' ext-4711', 'ext-4711 ')


def apply_op(w, op):
    """Execute op on implementation and reference.  Returns list of violation strings."""
    from saml2_tophat.samlp import NameIDPolicy
    from saml2_tophat.samlp import NewID
    bad = []
    db, ref = w.db, w.ref
    k = op[0]
    ids = canon_ids(w)

    def target(i):
        if i < 0:
            return NEVER
        t = ids[i]
        if t in ref.live:
            return tuple(ref.live[t][1])
        return tuple(ref.withdrawn[t])
    try:
        if k == 'transient':
            n = db.transient_nameid(op[1], op[2], op[3])
            if n.text in ref.ever:
                bad.append('transient-not-fresh')
            if n.format != TRANSIENT:
                bad.append('transient-format')
            ref.issue(op[1], n)
        elif k == 'persistent':
            u, sp, nq = op[1], op[2], op[3]
            cands = [t for t in ref.of_user(u) if ref.live[t][1][2] != TRANSIENT and (ref.live[t][1][1] or '') == sp
                     and (ref.live[t][1][0] or '') == nq]
            n = db.persistent_nameid(u, sp, nq)
            if cands:
                if n.text not in cands:
                    bad.append('persistent-not-stable')
            else:
                if n.text in ref.ever:
                    bad.append('persistent-reuses-identifier')
                    if n.text in ref.live and ref.live[n.text][0] != u:
                        bad.append('persistent-linked-to-other-user')
                    elif n.text in ref.live and (ref.live[n.text][1][1] or '') != sp:
                        bad.append('persistent-linked-across-sp')
                else:
                    ref.issue(u, n)
        elif k == 'issue':
            u, sp, f = op[1], op[2], FMT[op[3]]
            snq = op[4] if len(op) > 4 else sp       # Server: the policy's SPNameQualifier if it has one, else the SP
            cands = [t for t in ref.of_user(u) if ref.live[t][1][1] == snq and ref.live[t][1][2] == f]
            pol = NameIDPolicy(format=f, sp_name_qualifier=snq)
            found = db.find_nameid(u, sp_name_qualifier=snq, format=f)
            if found:
                n = found[0]
                if n.text not in cands:
                    bad.append('issue-found-identifier-not-of-this-user-sp')
            else:
                if cands:
                    bad.append('issue-lost-existing-identifier')
                n = db.construct_nameid(u, None, sp, pol)
                if n.text in ref.ever:
                    bad.append('issue-not-fresh')
                if (n.sp_name_qualifier or '') != snq or n.format != f:
                    bad.append('issued-identifier-not-for-the-requested-qualifier-or-format')
                ref.issue(u, n)
        elif k == 'construct':
            u, sp, f = op[1], op[2], FMT[op[3]]
            pol = NameIDPolicy(format=f, sp_name_qualifier=sp)
            n = db.construct_nameid(u, None, sp, pol)
            if n.text in ref.ever:
                bad.append('construct-not-fresh')
            ref.issue(u, n)
        elif k == 'store':
            n = mk_nameid((None, 'spA', PERSISTENT, None, op[2]))
            db.store(op[1], n)
            ref.issue(op[1], n)
        elif k == 'remove_local':
            u = op[1]
            db.remove_local(u)
            for t in ref.of_user(u):
                ref.withdraw(t)
        elif k == 'remove_remote':
            f = target(op[1])
            live = f[4] in ref.live
            try:
                db.remove_remote(mk_nameid(f))
            except NameError:
                raise
            except Exception:         # which exception an unknown identifier gets is not specified
                if live:
                    bad.append('remove_remote-of-live-identifier-raised')
            else:
                ref.withdraw(f[4])
        elif k in ('remove_remote_partial', 'manage_partial'):
            # same identifier text, other fields stale/omitted (e.g. a replayed request): either nothing changes
            # (the call raises) or the identifier is withdrawn/updated consistently
            f = target(op[1])
            pf = (None, None, None, None, f[4])
            live = f[4] in ref.live
            try:
                if k == 'remove_remote_partial':
                    db.remove_remote(mk_nameid(pf))
                else:
                    r = db.handle_manage_name_id_request(mk_nameid(pf), new_id=NewID(text='sp-chosen'))
            except NameError:
                raise
            except Exception:
                pass
            else:
                if k == 'remove_remote_partial':
                    ref.withdraw(f[4])
                elif live:
                    u = ref.live[f[4]][0]
                    ref.withdraw(f[4])
                    ref.withdrawn.pop(f[4], None)
                    ref.issue(u, r)
        elif k == 'manage':
            f = target(op[1])
            live = f[4] in ref.live
            n = mk_nameid(f)
            try:
                if op[2] == 'new':
                    r = db.handle_manage_name_id_request(n, new_id=NewID(text='sp-chosen'))
                else:
                    r = db.handle_manage_name_id_request(n, terminate='yes')
            except NameError:
                raise
            except Exception:
                if live:
                    bad.append('manage-of-live-identifier-raised')
            else:
                if live:
                    u = ref.live[f[4]][0]
                    ref.withdraw(f[4])
                    ref.withdrawn.pop(f[4], None)
                    ref.issue(u, r)
                    if r.text != f[4]:
                        bad.append('manage-changed-identifier-text')
                else:
                    # managing an unknown identifier "succeeded": it must not have attached it to anyone
                    if db.find_local_id(mk_nameid(f)) is not None and f[4] not in ref.live:
                        bad.append('manage-resurrected-or-invented-identifier')
        elif k == 'map':
            f = target(op[1])
            live = f[4] in ref.live
            fmt, sp, allow = FMT[op[2]], op[3], op[4]
            pol = NameIDPolicy(format=fmt, sp_name_qualifier=sp, allow_create=allow)
            from saml2_tophat.ident import Unknown
            from saml2_tophat.s_utils import PolicyError
            try:
                r = db.handle_name_id_mapping_request(mk_nameid(f), pol)
            except Unknown:
                if live:
                    bad.append('mapping-of-live-identifier-unknown')
            except PolicyError:
                if live:
                    u = ref.live[f[4]][0]
                    if any(ref.live[t][1][2] == fmt and ref.live[t][1][1] == sp for t in ref.of_user(u)):
                        bad.append('mapping-refused-although-identifier-exists')
                    if allow != 'false':
                        bad.append('mapping-refused-although-create-allowed')
            except NameError:
                raise
            except Exception:
                if live:
                    bad.append('mapping-of-live-identifier-raised')
            else:
                if not live:
                    bad.append('mapping-answered-for-unknown-identifier')
                else:
                    u = ref.live[f[4]][0]
                    if r.text in ref.live:
                        if ref.live[r.text][0] != u:
                            bad.append('mapping-returned-other-users-identifier')
                        if ref.live[r.text][1][1] != sp:
                            bad.append('mapping-returned-identifier-of-other-sp')
                    elif r.text in ref.ever:
                        bad.append('mapping-returned-withdrawn-identifier')
                    else:
                        if allow == 'false':
                            bad.append('mapping-created-although-not-allowed')
                        ref.issue(u, r)
    except NameError as e:
        bad.append('operation-crashed-NameError:%s' % e)
    return bad


def invariants(w, users):
    """Compare every observable query with the reference."""
    bad = []
    db, ref = w.db, w.ref
    for t, (u, f) in ref.live.items():
        got = db.find_local_id(mk_nameid(f))
        if got != u:
            bad.append('live-identifier-resolves-to-%s' % ('nobody' if got is None else 'other-user'))
    for t, f in ref.withdrawn.items():
        if t in ref.live:
            continue
        got = db.find_local_id(mk_nameid(f))
        if got is not None:
            bad.append('withdrawn-identifier-still-resolves')
    if db.find_local_id(mk_nameid(NEVER)) is not None:
        bad.append('never-issued-identifier-resolves')
    for u in users:
        try:
            got = db.find_nameid(u)
        except Exception as e:
            bad.append('find_nameid-raised-%s' % type(e).__name__)
            continue
        gs = sorted(tuple(str(x) for x in fields(n)) for n in got)
        want = sorted(tuple(str(x) for x in ref.live[t][1]) for t in ref.of_user(u))
        if gs != want:
            if len(gs) > len(want) and all(x in gs for x in want):
                bad.append('find_nameid-returns-identifiers-never-issued-or-withdrawn')
            else:
                bad.append('find_nameid-differs-from-issued-set')
        for n in got:
            if n.text and db.find_local_id(n) != u:
                bad.append('listed-identifier-does-not-resolve-to-its-user')
    return bad


def replay_history(hist, backend='dict', path=None):
    w = World(backend, path)
    bad = []
    for op in hist:
        bad = apply_op(w, tuple(op))
        if bad:
            break
        bad = invariants(w, ('u1', 'u2'))
        if bad:
            break
    return w, bad


CFG = {}


def expand(hist):
    """BFS worker: replay hist, then try every enabled op; return (children, violations)"""
    users, sps, nqs, fmts = CFG['alpha']
    w, bad = replay_history(hist)
    assert not bad
    ops = enabled_ops(w, users, sps, nqs, fmts)
    w.close()
    kids = []
    viol = []
    for op in ops:
        w2, _ = replay_history(hist)
        b = apply_op(w2, op)
        if not b:
            b = invariants(w2, users)
        if b:
            viol.append((list(hist) + [list(op)], sorted(set(b))))
        else:
            kids.append((list(hist) + [list(op)], canon_key(w2)))
        w2.close()
    return kids, viol, len(ops)


# ---------------------------------------------------------------- removal layer

R_OPS = [('store', 'u1', 'X'), ('store', 'u1', 'Y'), ('store', 'u2', 'Z'), ('persistent', 'u1'), ('transient', 'u1'),
         ('remove_local', 'u1'), ('remove_remote', 'X')]


def removal_eval(seq):
    """One sequence of R_OPS (the same identifier may be stored twice): after remove_local(u1) nothing issued to u1
    resolves or is listed, u2 is untouched, and an identifier issued afterwards resolves to u1.
    Returns (why, prefix length) or None."""
    from saml2_tophat.ident import IdentDB
    env.reset_rng()
    db = IdentDB({}, domain='example.org')
    mine, other = [], []
    for i, op in enumerate(seq):
        try:
            if op[0] == 'store':
                nid = mk_nameid((None, 'spA', PERSISTENT, None, 'ext-' + op[2]))
                db.store(op[1], nid)
                (mine if op[1] == 'u1' else other).append(nid)
            elif op[0] == 'persistent':
                mine.append(db.persistent_nameid('u1', 'spA', ''))
            elif op[0] == 'transient':
                mine.append(db.transient_nameid('u1', 'spA', ''))
            elif op[0] == 'remove_remote':
                try:
                    db.remove_remote(mk_nameid((None, 'spA', PERSISTENT, None, 'ext-X')))
                except NameError:
                    raise
                except Exception:
                    pass      # not stored (any more): which exception says so is not specified
            else:
                db.remove_local('u1')
                why = None
                if any(db.find_local_id(x) is not None for x in mine):
                    why = 'identifier-resolves-after-its-user-was-removed'
                elif db.find_nameid('u1'):
                    why = 'identifiers-listed-after-their-user-was-removed'
                elif any(db.find_local_id(x) != 'u2' for x in other):
                    why = 'other-users-identifier-lost-by-removal'
                else:
                    fresh = db.persistent_nameid('u1', 'spA', '')
                    if db.find_local_id(fresh) != 'u1':
                        why = 'identifier-issued-after-removal-resolves-to-nobody'
                    elif any(fresh.text == x.text for x in mine):
                        why = 'identifier-issued-after-removal-reuses-withdrawn-text'
                    db.remove_local('u1')
                    if why is None and db.find_local_id(fresh) is not None:
                        why = 'identifier-resolves-after-its-user-was-removed'
                if why:
                    return why, i + 1
                mine = []
        except KeyError:
            pass      # remove_remote of an identifier that is not stored
    return None


def removal_chunk(first):
    """Every sequence over R_OPS of length <= CFG['rdepth'] that starts with `first`."""
    bad = []
    n = 0
    for k in range(0, CFG['rdepth']):
        for rest in itertools.product(R_OPS, repeat=k):
            seq = (tuple(first),) + rest
            n += 1
            r = removal_eval(seq)
            if r:
                bad.append((r[0], [list(o) for o in seq[:r[1]]]))
    # a failing prefix is reported once
    uniq = {}
    for why, sq in bad:
        uniq.setdefault(repr(sq), (why, sq))
    return n, list(uniq.values())


# ---------------------------------------------------------------- many identifiers

def many_eval(n):
    """One user holding a persistent identifier and n transient ones: all of them keep resolving, the persistent one
    stays the same."""
    from saml2_tophat.ident import IdentDB
    env.reset_rng()
    db = IdentDB({}, domain='example.org')
    first = db.persistent_nameid('u1', 'spA', '')
    other = db.persistent_nameid('u2', 'spA', '')
    ids = [first]
    for i in range(n):
        ids.append(db.transient_nameid('u1', 'spA', ''))
    for i, x in enumerate(ids):
        if db.find_local_id(x) != 'u1':
            return 'identifier-%d-of-%d-no-longer-resolves' % (i, len(ids))
    if db.persistent_nameid('u1', 'spA', '').text != first.text:
        return 'persistent-identifier-changed-after-%d-transients' % n
    if db.find_local_id(other) != 'u2':
        return 'other-users-identifier-lost'
    if len(set(x.text for x in ids)) != len(ids):
        return 'transient-not-fresh'
    return None


# ---------------------------------------------------------------- stores and user ids of other kinds

def special_eval(which):
    """(a) the store handed over as an *empty* mapping object (a freshly opened shelf, a dict subclass): identifiers
    must land in that object - a second IdentDB around it, and the file reopened later, resolve them;
    (b) local user ids that are not text (int, UUID, bytes): stable persistent identifiers, the id comes back as
    the same object kind, ids 7 and '7' are two users."""
    import os
    import shelve
    import uuid
    import collections
    from saml2_tophat.ident import IdentDB
    from vp import world
    env.reset_rng()
    if which in ('empty-shelf', 'empty-userdict', 'empty-ordereddict'):
        path = os.path.join(CFG.get('tmp') or '/tmp', 'c18-special-%d-%s' % (os.getpid(), which))
        for ext in ('', '.db', '.dat', '.dir', '.bak'):
            if os.path.exists(path + ext):
                os.unlink(path + ext)
        store = shelve.open(path) if which == 'empty-shelf' else (collections.UserDict() if which == 'empty-userdict' else collections.OrderedDict())
        a = IdentDB(store, domain='example.org')
        n1 = a.persistent_nameid('u1', 'spA', '')
        t1 = a.transient_nameid('u1', 'spA', '')
        if not len(store):
            return 'identifiers-not-written-to-the-store-handed-over'
        b = IdentDB(store, domain='example.org')
        if b.find_local_id(n1) != 'u1' or b.find_local_id(t1) != 'u1':
            return 'second-handle-on-the-same-store-does-not-resolve'
        if b.persistent_nameid('u1', 'spA', '').text != n1.text:
            return 'persistent-identifier-differs-through-second-handle'
        if which == 'empty-shelf':
            store.close()
            c = IdentDB(path, domain='example.org')
            try:
                if c.find_local_id(n1) != 'u1':
                    return 'identifier-lost-after-reopening-the-file'
                if c.persistent_nameid('u1', 'spA', '').text != n1.text:
                    return 'persistent-identifier-changed-after-reopening-the-file'
            finally:
                c.db.close()
                for ext in ('', '.db', '.dat', '.dir', '.bak'):
                    if os.path.exists(path + ext):
                        os.unlink(path + ext)
        return None
    if which.startswith('mapping-'):
        # NameID mapping with a policy that leaves the SP qualifier / the format open: the answer is never an
        # identifier that was issued for another SP (or of another format) - that would link the user across SPs
        from saml2_tophat.samlp import NameIDPolicy
        db = IdentDB({}, domain='example.org')
        a = db.persistent_nameid('u1', 'spA', '')
        b = db.persistent_nameid('u1', 'spB', '')
        t = db.transient_nameid('u1', 'spA', '')
        pol = {'mapping-without-qualifier': NameIDPolicy(format=PERSISTENT, allow_create='false'),
               'mapping-without-format': NameIDPolicy(sp_name_qualifier='spB', allow_create='false'),
               'mapping-open': NameIDPolicy(allow_create='false')}[which]
        try:
            r = db.handle_name_id_mapping_request(t if which != 'mapping-without-format' else a, pol)
        except Exception:
            return None
        if r is None:
            return None
        if (r.sp_name_qualifier or None) != (pol.sp_name_qualifier or None) or (r.format or None) != (pol.format or None):
            return 'mapping-answered-with-an-identifier-of-another-sp-or-format:%s/%s' % (r.sp_name_qualifier, (r.format or '').rsplit(':', 1)[-1])
        return None
    if which == 'decode-hands-out-fresh-objects':
        from saml2_tophat.ident import code, decode
        db = IdentDB({}, domain='example.org')
        a = db.persistent_nameid('u1', 'spA', '')
        c = code(a)
        d1 = decode(c)
        d1.sp_provided_id = 'tampered'
        d1.text = 'tampered'
        d2 = decode(c)
        if d2.text != a.text or d2.sp_provided_id:
            return 'decoded-name-id-shared-between-callers'
        f1 = db.find_nameid('u1')[0]
        f1.text = 'tampered-too'
        if db.find_nameid('u1')[0].text != a.text or db.find_local_id(a) != 'u1' or db.persistent_nameid('u1', 'spA', '').text != a.text:
            return 'looked-up-name-id-shared-between-callers'
        return None
    uid = {'int': 1001, 'uuid': uuid.UUID(int=7), 'bytes': b'u-1001', 'int-and-its-text': 7}[which]
    db = IdentDB({}, domain='example.org')
    p1 = db.persistent_nameid(uid, 'spA', '')
    if db.persistent_nameid(uid, 'spA', '').text != p1.text:
        return 'persistent-identifier-not-stable'
    back = db.find_local_id(p1)
    if back != uid or type(back) is not type(uid):
        return 'identifier-resolves-to-%r' % (back,)
    if which == 'int-and-its-text':
        p2 = db.persistent_nameid('7', 'spA', '')
        if p2.text == p1.text:
            return 'two-users-share-a-persistent-identifier'
        if db.find_local_id(p2) != '7' or db.find_local_id(p1) != 7:
            return 'identifier-resolves-to-the-other-user'
        db.remove_local('7')
        if db.find_local_id(p1) != 7:
            return 'removing-one-user-withdrew-the-others-identifier'
    t = db.transient_nameid(uid, 'spA', '')
    db.remove_local(uid)
    for x in (p1, t):
        try:
            r = db.find_local_id(x)
        except Exception:
            r = None
        if r is not None:
            return 'identifier-resolves-after-remove_local'
    return None


SPECIALS = ('empty-shelf', 'empty-userdict', 'empty-ordereddict', 'int', 'uuid', 'bytes', 'int-and-its-text',
            'mapping-without-qualifier', 'mapping-without-format', 'mapping-open', 'decode-hands-out-fresh-objects')


# ---------------------------------------------------------------- encoding table

ALPH = ['a', ',', '=', '%', ' ', '"', 'é', '/', '+', '0', '&', '%2C', '1=x',
        'e\u0308', '\u212b', '\u2126',       # not in NFC: decomposed e-diaeresis, ANGSTROM SIGN, OHM SIGN
        '\udcc3\udca9']                      # lone surrogates standing for the UTF-8 bytes of 'é' (PEP 383): refusing is fine, aliasing is not


def strings(n):
    out = ['']
    for k in range(1, n + 1):
        for tup in itertools.product(ALPH, repeat=k):
            out.append(''.join(tup))
    return out


def encoding_chunk(args):
    from saml2_tophat.ident import code, decode
    from saml2_tophat.saml import NameID
    vals, firsts = args
    bad = []
    codes = {}
    n = 0
    for f0 in firsts:
        for rest in itertools.product(vals, repeat=2):
            for f in ((f0, rest[0], None, None, rest[1]), (None, f0, rest[0], rest[1], 'T'), (rest[0], None, f0, 'p', rest[1]),
                      (None, rest[0], EMAIL, None, 'Jane.' + f0 + rest[1] + '@Example.COM')):
                nid = NameID(name_qualifier=f[0] or None, sp_name_qualifier=f[1] or None, format=f[2] or None,
                             sp_provided_id=f[3] or None, text=f[4] or None)
                try:
                    c = code(nid)
                except UnicodeEncodeError:
                    continue            # refused: nothing stored under an ambiguous key
                n += 1
                d = decode(c)
                want = tuple(x or None for x in f)
                if fields(d) != want:
                    bad.append(('roundtrip', list(f), c))
                if ' ' in c:
                    bad.append(('code-contains-space', list(f), c))
                prev = codes.get(c)
                if prev is not None and prev != want:
                    bad.append(('collision', list(f), c))
                codes[c] = want
    return n, bad, len(codes)


def run(ctx):
    users, sps = ('u1', 'u2'), ('spA', 'spB')
    nqs = ('',) if not ctx.thorough else ('', 'idp')
    fmts = ('P', 'T') if not ctx.thorough else ('P', 'T', 'E')
    CFG['alpha'] = (users, sps, nqs, fmts)
    depth = 4 if not ctx.thorough else 5
    max_states = 60000 if not ctx.thorough else 150000
    seen = {}
    w0, _ = replay_history([])
    seen[canon_key(w0)] = []
    frontier = [[]]
    transitions = 0
    states_by_depth = [1]
    samples = []
    capped = False
    for d in range(depth):
        res = ctx.pmap(expand, frontier, chunksize=4)
        if d == 0:
            ctx.recheck(expand, frontier, res, n=4)
        nxt = []
        for kids, viol, nops in res:
            transitions += nops
            for hist, why in viol:
                for y in why:
                    ctx.violation({'kind': 'history', 'why': y, 'last_op': hist[-1][0], 'ops': hist}, {})
            for hist, key in kids:
                if len(hist) <= 2:
                    key = repr(hist)       # short histories are never merged (exposes hidden implementation state)
                if key not in seen:
                    seen[key] = hist
                    nxt.append(hist)
        states_by_depth.append(len(nxt))
        if len(seen) > max_states and d + 1 < depth:
            ctx.cap('state cap %d reached after depth %d; deeper layers not expanded' % (max_states, d + 1))
            capped = True
            frontier = nxt
            break
        frontier = nxt
        if nxt:
            samples.append(nxt[len(nxt) // 2])
    # file-backed variant: re-run a spread of the explored histories on the shelve backend, demand identical verdicts
    shelf_n = 0
    if ctx.thorough:
        hs = list(seen.values())[:: max(1, len(seen) // 400)]
        for i, h in enumerate(hs):
            w, bad = replay_history(h, 'shelve', os.path.join(ctx.tmp, 'ident-%d' % (i % 8)))
            k1 = canon_key(w)
            w.close()
            w2, _ = replay_history(h)
            if bad or k1 != canon_key(w2):
                ctx.violation({'kind': 'shelve-differs', 'ops': h, 'why': ';'.join(bad)}, {})
            shelf_n += 1
    # many identifiers of one user
    for n_, why in zip((10, 65, 70, 300, 1100), ctx.pmap(many_eval, [10, 65, 70, 300, 1100], chunksize=1)):
        if why:
            ctx.violation({'kind': 'many', 'why': why.split('-of-')[0] if '-of-' in why else why, 'count': n_}, {'detail': why})
    CFG['tmp'] = ctx.tmp
    for which in SPECIALS:
        try:
            why = special_eval(which)
        except NameError:
            raise
        except Exception as e:
            why = 'raised:%s' % type(e).__name__
        if why:
            ctx.violation({'kind': 'special', 'case': which, 'why': why.split(':')[0]}, {'detail': why})
    # removal layer
    CFG['rdepth'] = 4 if not ctx.thorough else 5
    rem = ctx.pmap(removal_chunk, R_OPS, chunksize=1)
    n_rem = sum(r[0] for r in rem)
    for _n, bad in rem:
        for why, seq in bad[:40]:
            ctx.violation({'kind': 'removal', 'why': why, 'ops': seq}, {})
    # encoding table
    vals = strings(1 if not ctx.thorough else 2)
    chunks = [(vals, [v]) for v in vals]
    enc = ctx.pmap(encoding_chunk, chunks, chunksize=1)
    n_enc = sum(e[0] for e in enc)
    for _n, bad, _c in enc:
        for kind, f, c in bad[:50]:
            ctx.violation({'kind': 'encoding', 'why': kind, 'fields': f}, {'code': c})
    return {
        'level': 'model_checking',
        'coverage': {
            'states': len(seen), 'transitions': transitions, 'traces_validated_against_impl': transitions,
            'samples': [{'history': s} for s in samples[:3]] or [{'history': []}],
            'exhaustive': not capped, 'max_depth': depth, 'states_by_depth': states_by_depth,
            'frontier_at_bound': len(frontier), 'encoding_cases': n_enc, 'shelve_histories': shelf_n, 'removal_sequences': n_rem,
            'alphabet': {'users': users, 'sps': sps, 'name_qualifiers': nqs, 'formats': fmts},
            'rule': 'BFS over operation histories on a fresh real IdentDB (every history replayed on implementation and reference); ops: transient/persistent/issue(find-then-construct, also with a NameIDPolicy SPNameQualifier that is not the SP)/construct(force-new)/store(externally supplied text, with leading / trailing blank)/remove_local/remove_remote/manage(new|terminate)/map(allow_create) over identifiers issued so far + one never-issued; states merged, from depth 3 on, by canonical key (db content and reference under renaming of opaque identifier texts, per-user storage order kept); after every step every live/withdrawn/never-issued identifier and every user listing is compared with the reference.  One user with a persistent and 10/65/70/300/1100 transient identifiers: all keep resolving.  Removal layer: every sequence of length <= %d over store(u1,X)/store(u1,Y)/store(u2,Z)/persistent/transient/remove_local(u1)/remove_remote(X) (double storage allowed): after remove_local nothing of u1 resolves or is listed, u2 is untouched, the next identifier resolves.  Encoding table: code/decode over all NameIDs with fields from strings of length <= %d over %r' % (CFG['rdepth'], 1 if not ctx.thorough else 2, ALPH),
        },
        'assumptions': ['identifier texts are opaque to IdentDB (justifies canonical renaming)', 'deterministic id source (vp/env.py) replaces random.SystemRandom',
                        'user ids u1/u2 never collide with identifier texts (the shared key space is only reachable with adversarial user ids)'],
    }


def replay(ctx, w):
    if w.get('kind') == 'encoding':
        from saml2_tophat.ident import code, decode
        from saml2_tophat.saml import NameID
        f = w['fields']
        nid = NameID(name_qualifier=f[0] or None, sp_name_qualifier=f[1] or None, format=f[2] or None,
                     sp_provided_id=f[3] or None, text=f[4] or None)
        d = decode(code(nid))
        return {'violation': fields(d) != tuple(x or None for x in f), 'code': code(nid)}
    if w.get('kind') == 'many':
        why = many_eval(w['count'])
        return {'violation': bool(why), 'why': why}
    if w.get('kind') == 'removal':
        r = removal_eval([tuple(o) for o in w['ops']])
        return {'violation': bool(r), 'why': r}
    CFG['alpha'] = (('u1', 'u2'), ('spA', 'spB'), ('', 'idp'), ('P', 'T', 'E'))
    _w, bad = replay_history(w['ops'])
    return {'violation': bool(bad), 'why': bad}
