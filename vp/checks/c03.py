"""C03 - signatures are trusted only under the issuer's keys from metadata (complete product table)."""
import itertools

from vp import env, world, forge, oracle
from vp.world import IDP_A, IDP_B

TMP = [None]
_sp = {}
LAYOUTS = {
    'one-signing': (('idpA', 'signing'),),
    'two-signing': (('idpA', 'signing'), ('idpA2', 'signing')),
    'encryption-only': (('idpAenc', 'encryption'),),
    'signing+encryption': (('idpA', 'signing'), ('idpAenc', 'encryption')),
    'useless': (('idpA', None),),
    'expired-signing': (('idpAexp', 'signing'),),
    'encryption-then-useless': (('idpAenc', 'encryption'), ('idpA', None)),
    'useless-then-encryption': (('idpA', None), ('idpAenc', 'encryption')),
    'none': (),
    'empty-store': 'EMPTY',
    # an entity with two roles: the role listed first has no signing key, the later one (attribute authority) has
    'multirole:enc+aa-signing': (('idpAenc', 'encryption'), ('@aa', 'idpA', 'signing')),
    'multirole:none+aa-signing': (('@aa', 'idpA', 'signing'),),
    # a signing key descriptor that carries no certificate (schema-legal: KeyName only / X509SubjectName only / KeyValue
    # only) next to a real signing certificate
    # metadata obtained from an MDQ service (modelled at mdstore.requests.get): strict, or answering identifiers it does
    # not know with the descriptor of IdP B (a front end that canonicalises / falls back)
    'mdq-strict': (('idpA', 'signing'),),
    'mdq-fallback-to-B': (('idpA', 'signing'),),
    'keyname-then-signing': (('@nocert:keyname', None, 'signing'), ('idpA', 'signing')),
    'signing-then-subjectname': (('idpA', 'signing'), ('@nocert:subjectname', None, 'signing')),
    'keyvalue-useless-then-signing': (('@nocert:keyvalue', None, None), ('idpA', 'signing')),
    # ... and one whose X509Certificate element is there but empty
    'emptycert-then-signing': (('@nocert:emptycert', None, 'signing'), ('idpA', 'signing')),
    'signing-then-emptycert-useless': (('idpA', 'signing'), ('@nocert:emptycert', None, None)),
}
NOCERT = {
    'keyname': '<ds:KeyName>idp-signing-2031</ds:KeyName>',
    'subjectname': '<ds:X509Data><ds:X509SubjectName>CN=vp-idpA</ds:X509SubjectName></ds:X509Data>',
    'keyvalue': None,      # filled from the mallory key below: a bare RSA key value
    'emptycert': '<ds:X509Data><ds:X509Certificate/></ds:X509Data>',
}
AA_ROLE = ('<md:AttributeAuthorityDescriptor protocolSupportEnumeration="urn:oasis:names:tc:SAML:2.0:protocol">%s'
           '<md:AttributeService Binding="urn:oasis:names:tc:SAML:2.0:bindings:SOAP" Location="https://idpa.example/aa"/>'
           '</md:AttributeAuthorityDescriptor>')
ISSUERS = {'A': IDP_A, 'B': IDP_B, 'unknown': 'urn:vp:nobody', 'absent': None}
KEYS = ('idpA', 'idpA2', 'idpAenc', 'idpB', 'mallory', 'idpAexp')
KEYINFO = ('none', 'x509-actual', 'x509-idpA', 'rsakv-actual')
ONLY = (True, None, False)


def nocert_descriptor(kind, use):
    inner = NOCERT[kind]
    if inner is None:
        inner = forge.keyinfo_xml('rsakv:idpA2')[len('<ds:KeyInfo>'):-len('</ds:KeyInfo>')]
    return '<md:KeyDescriptor%s><ds:KeyInfo xmlns:ds="http://www.w3.org/2000/09/xmldsig#">%s</ds:KeyInfo></md:KeyDescriptor>' % (
        ' use="%s"' % use if use else '', inner)


def md_a(layout):
    keys = [k for k in LAYOUTS[layout] if not k[0].startswith('@')]
    x = world.idp_md(IDP_A, keys=tuple(keys))
    for i, k in enumerate(LAYOUTS[layout]):
        if k[0].startswith('@nocert:'):
            d = nocert_descriptor(k[0].split(':')[1], k[2])
            if i == 0:
                x = x.replace('<md:KeyDescriptor', d + '<md:KeyDescriptor', 1)
            else:
                j = x.rindex('</md:KeyDescriptor>') + len('</md:KeyDescriptor>')
                x = x[:j] + d + x[j:]
    aa = [k for k in LAYOUTS[layout] if k[0] == '@aa']
    if aa:
        x = x.replace('</md:EntityDescriptor>', AA_ROLE % ''.join(world.key_descriptor(n, u) for _t, n, u in aa) + '</md:EntityDescriptor>')
    return x


class _MdqResp(object):
    def __init__(self, code, body=''):
        self.status_code = code
        self.content = body.encode('utf-8')
        self.text = body


def mdq_get(layout):
    import hashlib
    docs = {}
    b = world.idp_md(IDP_B, keys=(('idpB', 'signing'),), sso=(('https://idpb.example/sso', world.BINDING_HTTP_REDIRECT),), slo=())
    for eid, doc in ((IDP_A, world.idp_md(IDP_A, keys=LAYOUTS[layout])), (IDP_B, b)):
        docs['{sha1}' + hashlib.sha1(eid.encode('utf-8')).hexdigest()] = doc

    def get(url, **kw):
        key = url.rsplit('/', 1)[1]
        if key in docs:
            return _MdqResp(200, docs[key])
        return _MdqResp(200, b) if layout.endswith('fallback-to-B') else _MdqResp(404)
    return get


def sp_for(layout, only, backend=None):
    k = (layout, only) if backend is None else (layout, only, backend)
    if layout.startswith('mdq'):
        from saml2_tophat import mdstore

        class _Req(object):
            get = staticmethod(mdq_get(layout))
        mdstore.requests = _Req
        if k not in _sp:
            from saml2_tophat.config import SPConfig
            from saml2_tophat.client import Saml2Client
            top = {} if only is None else {'only_use_keys_in_metadata': only}
            d = world.sp_config(TMP[0], [], top=top, want_response_signed=False)
            d['metadata'] = {'mdq': ['https://mdq.example']}
            c = SPConfig()
            c.load(d)
            _sp[k] = Saml2Client(c)
        return _sp[k]
    if k not in _sp:
        top = {} if only is None else {'only_use_keys_in_metadata': only}
        if backend:
            from vp import pyxmlsec_model
            pyxmlsec_model.install()
            top['crypto_backend'] = backend
        if LAYOUTS[layout] == 'EMPTY':
            md = []           # an SP whose metadata store has no source at all
        else:
            md = [md_a(layout), world.idp_md(IDP_B, keys=(('idpB', 'signing'),), sso=(('https://idpb.example/sso', world.BINDING_HTTP_REDIRECT),), slo=())]
        _sp[k] = world.make_sp(TMP[0], md, top=top, want_response_signed=False)
    return _sp[k]


def cells(thorough):
    out = []
    for layout, iss, key, ki, what in itertools.product(LAYOUTS, ISSUERS, KEYS, KEYINFO, ('response', 'assertion')):
        if not thorough and layout == 'signing+encryption' and ki != 'none':
            continue
        if key == 'idpAexp' and layout not in ('expired-signing', 'one-signing', 'none'):
            continue
        out.append((layout, iss, iss, key, ki, what))
    # non-initial store state: the application (or the library's own encryption path) has looked up the
    # issuer's encryption certificates first
    for layout, key, what in itertools.product(('signing+encryption', 'encryption-only', 'one-signing'), KEYS[:5], ('response', 'assertion')):
        out.append((layout, 'A', 'A', key, 'none', what + '@after-encryption-lookup'))
    # encrypted advice assertion: its own Issuer decides, not the enclosing assertion's
    for inner_iss, key in itertools.product(('A', 'B', 'unknown'), KEYS[:5]):
        out.append(('one-signing', 'A', inner_iss, key, 'none', 'advice-enc'))
    # (the multi-role layouts are part of LAYOUTS and so of the product above)
    # response validly signed by its own issuer, carrying an assertion of issuer i2 signed with `key`
    for layout, i1, i2, key in itertools.product(('one-signing', 'two-signing'), ('A', 'B'), ('A', 'B', 'unknown'), KEYS[:5]):
        out.append((layout, i1, i2, key, 'none', 'both'))
    # the alternative crypto backend (pyXMLSecurity, modelled in vp/pyxmlsec_model.py): same trust rules
    for layout, iss, key, ki, what in itertools.product(('one-signing', 'none', 'encryption-only'), ('A', 'unknown'), ('idpA', 'mallory'),
                                                        ('none', 'x509-actual'), ('response', 'assertion')):
        out.append((layout, iss, iss, key, ki, what + '@XMLSecurity'))
    if thorough:
        # response and assertion claim different issuers
        for layout, i1, i2, key, what in itertools.product(('one-signing', 'none'), ('A', 'B'), ('A', 'B', 'unknown'), KEYS, ('response', 'assertion')):
            if i1 != i2:
                out.append((layout, i1, i2, key, 'none', what))
    return out


def keyinfo_spec(ki, key):
    return {'none': None, 'x509-actual': 'x509:' + key, 'x509-idpA': 'x509:idpA', 'rsakv-actual': 'rsakv:' + key}[ki]


def metadata_keys(layout, issuer):
    if LAYOUTS[layout] == 'EMPTY':
        return []
    if issuer == 'A':
        return [k[-2] for k in LAYOUTS[layout] if k[-1] in ('signing', None) and k[-2] is not None]
    if issuer == 'B':
        return ['idpB']
    return []


def evaluate(cell):
    layout, riss, aiss, key, ki, what = cell
    env.Clock.set(env.BASE)
    spec = keyinfo_spec(ki, key)
    kw = dict(resp=dict(issuer=ISSUERS[riss]), assertions=[dict(issuer=ISSUERS[aiss])])
    backend = 'XMLSecurity' if what.endswith('@XMLSecurity') else None
    if what == 'both':
        kw.update(sign_resp={'A': 'idpA', 'B': 'idpB'}[riss], sign_ass=key)
    elif what.startswith('response'):
        kw.update(sign_resp=key, resp_keyinfo=spec)
    elif what.startswith('assertion'):
        kw.update(sign_ass=key, ass_keyinfo=spec)
    prime = what.endswith('@after-encryption-lookup')
    if what == 'advice-enc':
        xml = build_advice(aiss, key)
    else:
        xml = forge.build(env.BASE, **kw)
    out = []
    for only in ONLY:
        if prime:
            _sp.pop((layout, only), None)
        sp = sp_for(layout, only, backend)
        if prime:
            try:
                sp.metadata.certs(IDP_A, 'any', 'encryption')
            except Exception:
                pass
        obs = oracle.accept_response(sp, xml)
        if prime:
            _sp.pop((layout, only), None)
        acc = obs['accept']
        if what == 'advice-enc' and acc:
            # the advice assertion's attribute is the observable: was it adopted into the identity?
            acc = 'advice-secret' in repr(obs['identity'].get('ava'))
        out.append((only, acc, obs.get('exc')))
    return out


def build_advice(inner_iss, key):
    """Response signed by A; outer assertion from A carries an encrypted advice assertion (Issuer inner_iss) signed
    with `key`."""
    from vp import xmlsec
    now = env.BASE
    inner = forge.assertion(now, aid='ADV1', issuer=ISSUERS[inner_iss], sign=True, attrs=(('adviceAttr', ('advice-secret',)),))
    outer = forge.assertion(now, aid='A1', advice='<saml:EncryptedAssertion>%s</saml:EncryptedAssertion>' % inner)
    x = forge.response(now, [outer], sign=True)
    x = forge.sign(x, 'ADV1', key)
    doc = xmlsec.parse_doc(x)
    for e in xmlsec.dfs(doc.documentElement):
        if e.localName == 'Assertion' and e.getAttribute('ID') == 'ADV1':
            xmlsec.encrypt_node(doc, e, forge.enc_template(), world.pub('spXenc1'))
            break
    x = doc.documentElement.toxml()
    return forge.sign(x, 'R1', 'idpA')


def allowed(cell, only):
    layout, riss, aiss, key, ki, what = cell
    iss = riss if what.startswith('response') else aiss       # 'both': the assertion's signature is the one in question
    K = metadata_keys(layout, iss)
    if key in K:
        return True
    only_eff = True if only is None else only
    if not only_eff and not K:
        if ki == 'x509-actual':
            return True
        if ki == 'x509-idpA' and key == 'idpA':
            return True
    return False


ROTATIONS = ('key-replaced', 'key-relabelled-encryption', 'issuer-removed', 'second-key-withdrawn')


def evaluate_rotation(case):
    """One long-lived SP: a genuine response of A is accepted, then A's metadata source is loaded again under the same
    key with other content (roll-over), then messages signed with the retired key arrive: the store no longer holds
    that certificate as a signing certificate of A, so none of them authenticates A (embedded certificates only where
    the metadata now has no signing key for A at all and the option allows them)."""
    import os
    how, only, what, ki = case
    env.Clock.set(env.BASE)
    d = os.path.join(TMP[0], 'rot-%d-%s-%s-%s-%s' % (os.getpid(), how, only, what, ki))
    os.makedirs(d, exist_ok=True)
    before = {'second-key-withdrawn': (('idpA2', 'signing'), ('idpA', 'signing'))}.get(how, (('idpA', 'signing'),))
    after = {'key-replaced': (('idpA2', 'signing'),), 'key-relabelled-encryption': (('idpA', 'encryption'), ('idpA2', 'signing')),
             'issuer-removed': None, 'second-key-withdrawn': (('idpA2', 'signing'),)}[how]
    md_b = world.idp_md(IDP_B, keys=(('idpB', 'signing'),), sso=(('https://idpb.example/sso', world.BINDING_HTTP_REDIRECT),), slo=())
    top = {} if only is None else {'only_use_keys_in_metadata': only}
    sp = world.make_sp(d, [world.idp_md(IDP_A, keys=before), md_b], top=top, want_response_signed=False)
    path = world.write_md(d, world.idp_md(IDP_A, keys=before))
    kw = dict(sign_resp='idpA') if what == 'response' else dict(sign_ass='idpA')
    first = oracle.accept_response(sp, forge.build(env.BASE, **kw))
    if not first['accept']:
        return case, 'PRIMING-REJECTED:%s' % first.get('exc'), False
    assert path in sp.metadata.metadata
    with open(path, 'w', encoding='utf-8') as f:
        f.write(world.idp_md(IDP_A, keys=after) if after is not None else world.idp_md('urn:vp:other-idp', keys=(('idpA2', 'signing'),)))
    sp.metadata.load('local', path)
    spec = keyinfo_spec(ki, 'idpA')
    if what == 'response':
        kw = dict(sign_resp='idpA', resp_keyinfo=spec, resp=dict(rid='R2'))
    else:
        kw = dict(sign_ass='idpA', ass_keyinfo=spec, assertions=[dict(aid='A2')])
    obs = oracle.accept_response(sp, forge.build(env.BASE, **kw))
    # allowed only: the metadata holds no signing key for A any more, the option is off and the certificate is embedded
    ok = (how == 'issuer-removed' and only is False and ki in ('x509-actual', 'x509-idpA'))
    return case, None, bool(obs['accept'] and not ok)


def run(ctx):
    TMP[0] = ctx.tmp
    rot = [(h, o, w, ki) for h in ROTATIONS for o in ONLY for w in ('response', 'assertion') for ki in ('none', 'x509-actual')]
    for case, problem, bad in ctx.pmap(evaluate_rotation, rot, chunksize=2):
        if problem:
            ctx.note('rotation %s: %s' % (case, problem))
        if bad:
            ctx.violation({'kind': 'retired-key-still-authenticates', 'rotation': case[0], 'only_use_keys_in_metadata': case[1],
                           'signed': case[2], 'keyinfo': case[3]}, {})
    cs = cells(ctx.thorough)
    res = ctx.pmap(evaluate, cs)
    ctx.recheck(evaluate, cs, res, n=24)
    n = acc = 0
    nontriv = set()
    hist = {}
    for c, outs in zip(cs, res):
        for only, accept, exc in outs:
            n += 1
            acc += accept
            k = 'ACCEPT' if accept else 'REJECT:%s' % exc
            hist[k] = hist.get(k, 0) + 1
            ok = allowed(c, only)
            if not ok:
                nontriv.add((c, only))
            if accept and not ok:
                ctx.violation({'kind': 'accepted-under-untrusted-key', 'layout': c[0], 'response_issuer': c[1], 'assertion_issuer': c[2],
                               'signing_key': c[3], 'keyinfo': c[4], 'signed': c[5], 'only_use_keys_in_metadata': only}, {})
    if not acc:
        ctx.note('VACUOUS: nothing accepted')
    i0 = len(cs) // 2
    return {
        'level': 'exploration',
        'coverage': {
            'evaluations': n, 'distinct_nontrivial': len(nontriv), 'exhaustive': True, 'accepted': acc, 'vacuous': acc == 0,
            'rule': 'complete product: metadata layout of IdP A (one/two signing certs, encryption-only, signing+encryption, use-less, none; IdP B always has its own) (also a two-role entity whose first role has no signing key while its attribute-authority role has one, and signing key descriptors without a certificate - KeyName / X509SubjectName / KeyValue only - next to a real one; metadata from an MDQ service, strict or answering unknown identifiers with the descriptor of IdP B) x claimed Issuer (A, B, unknown, absent) x actual signing key (A, A2, A-encryption, B, mallory) x embedded KeyInfo (none, X509 of signer, X509 of A, RSAKeyValue of signer) x signed element (response, assertion, and a response validly signed by its issuer carrying an assertion of another issuer) x only_use_keys_in_metadata (True, absent, False); a sub-product under crypto_backend XMLSecurity (pyXMLSecurity modelled by vp/pyxmlsec_model.py); non-trivial = cells where the statement forbids acceptance',
            'samples': [{'cell': list(cs[i0]), 'outcomes': [list(o) for o in res[i0]]}],
            'distinct_outcomes': len(hist), 'outcome_histogram': hist,
        },
        'assumptions': ['xmlsec1 model: KeyInfo/KeyValue is honoured by the tool unless --enabled-key-data excludes it; X509Data is never trusted without --trusted-* (DESIGN 4.1)',
                        'one-directional oracle (acceptance side is C08)'],
    }


def replay(ctx, w):
    TMP[0] = ctx.tmp
    c = (w['layout'], w['response_issuer'], w['assertion_issuer'], w['signing_key'], w['keyinfo'], w['signed'])
    for only, accept, exc in evaluate(c):
        if only == w['only_use_keys_in_metadata']:
            return {'violation': accept and not allowed(c, only), 'observed': [accept, exc]}
    return {'violation': False}
