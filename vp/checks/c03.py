"""C03 - signatures are trusted only under the issuer's keys from metadata (complete product table)."""
import itertools

from vp import env, world, forge, oracle
from vp.world import IDP_A, IDP_B

TMP = [None]
_sp = {}
LAYOUTS = {
    'one-signing': (('idpA', 'signing'),),
    'two-signing': (('idpA', 'signing'), ('idpA2', 'signing')),
    'encryption-only': (('idpAenc', 'encryption'),),
    'signing+encryption': (('idpA', 'signing'), ('idpAenc', 'encryption')),
    'useless': (('idpA', None),),
    'none': (),
}
ISSUERS = {'A': IDP_A, 'B': IDP_B, 'unknown': 'urn:vp:nobody', 'absent': None}
KEYS = ('idpA', 'idpA2', 'idpAenc', 'idpB', 'mallory')
KEYINFO = ('none', 'x509-actual', 'x509-idpA', 'rsakv-actual')
ONLY = (True, None, False)


def sp_for(layout, only):
    k = (layout, only)
    if k not in _sp:
        top = {} if only is None else {'only_use_keys_in_metadata': only}
        md = [world.idp_md(IDP_A, keys=LAYOUTS[layout]), world.idp_md(IDP_B, keys=(('idpB', 'signing'),), sso=(('https://idpb.example/sso', world.BINDING_HTTP_REDIRECT),), slo=())]
        _sp[k] = world.make_sp(TMP[0], md, top=top, want_response_signed=False)
    return _sp[k]


def cells(thorough):
    out = []
    for layout, iss, key, ki, what in itertools.product(LAYOUTS, ISSUERS, KEYS, KEYINFO, ('response', 'assertion')):
        if not thorough and layout == 'signing+encryption' and ki != 'none':
            continue
        out.append((layout, iss, iss, key, ki, what))
    if thorough:
        # response and assertion claim different issuers
        for layout, i1, i2, key, what in itertools.product(('one-signing', 'none'), ('A', 'B'), ('A', 'B', 'unknown'), KEYS, ('response', 'assertion')):
            if i1 != i2:
                out.append((layout, i1, i2, key, 'none', what))
    return out


def keyinfo_spec(ki, key):
    return {'none': None, 'x509-actual': 'x509:' + key, 'x509-idpA': 'x509:idpA', 'rsakv-actual': 'rsakv:' + key}[ki]


def metadata_keys(layout, issuer):
    if issuer == 'A':
        return [n for n, use in LAYOUTS[layout] if use in ('signing', None)]
    if issuer == 'B':
        return ['idpB']
    return []


def evaluate(cell):
    layout, riss, aiss, key, ki, what = cell
    env.Clock.set(env.BASE)
    spec = keyinfo_spec(ki, key)
    kw = dict(resp=dict(issuer=ISSUERS[riss]), assertions=[dict(issuer=ISSUERS[aiss])])
    if what == 'response':
        kw.update(sign_resp=key, resp_keyinfo=spec)
    else:
        kw.update(sign_ass=key, ass_keyinfo=spec)
    xml = forge.build(env.BASE, **kw)
    out = []
    for only in ONLY:
        obs = oracle.accept_response(sp_for(layout, only), xml)
        out.append((only, obs['accept'], obs.get('exc')))
    return out


def allowed(cell, only):
    layout, riss, aiss, key, ki, what = cell
    iss = riss if what == 'response' else aiss
    K = metadata_keys(layout, iss)
    if key in K:
        return True
    only_eff = True if only is None else only
    if not only_eff and not K:
        if ki == 'x509-actual':
            return True
        if ki == 'x509-idpA' and key == 'idpA':
            return True
    return False


def run(ctx):
    TMP[0] = ctx.tmp
    cs = cells(ctx.thorough)
    res = ctx.pmap(evaluate, cs)
    ctx.recheck(evaluate, cs, res, n=24)
    n = acc = 0
    nontriv = set()
    hist = {}
    for c, outs in zip(cs, res):
        for only, accept, exc in outs:
            n += 1
            acc += accept
            k = 'ACCEPT' if accept else 'REJECT:%s' % exc
            hist[k] = hist.get(k, 0) + 1
            ok = allowed(c, only)
            if not ok:
                nontriv.add((c, only))
            if accept and not ok:
                ctx.violation({'kind': 'accepted-under-untrusted-key', 'layout': c[0], 'response_issuer': c[1], 'assertion_issuer': c[2],
                               'signing_key': c[3], 'keyinfo': c[4], 'signed': c[5], 'only_use_keys_in_metadata': only}, {})
    if not acc:
        ctx.note('VACUOUS: nothing accepted')
    i0 = len(cs) // 2
    return {
        'level': 'exploration',
        'coverage': {
            'evaluations': n, 'distinct_nontrivial': len(nontriv), 'exhaustive': True, 'accepted': acc, 'vacuous': acc == 0,
            'rule': 'complete product: metadata layout of IdP A (one/two signing certs, encryption-only, signing+encryption, use-less, none; IdP B always has its own) x claimed Issuer (A, B, unknown, absent) x actual signing key (A, A2, A-encryption, B, mallory) x embedded KeyInfo (none, X509 of signer, X509 of A, RSAKeyValue of signer) x signed element x only_use_keys_in_metadata (True, absent, False); non-trivial = cells where the statement forbids acceptance',
            'samples': [{'cell': list(cs[i0]), 'outcomes': [list(o) for o in res[i0]]}],
            'distinct_outcomes': len(hist), 'outcome_histogram': hist,
        },
        'assumptions': ['xmlsec1 model: KeyInfo/KeyValue is honoured by the tool unless --enabled-key-data excludes it; X509Data is never trusted without --trusted-* (DESIGN 4.1)',
                        'one-directional oracle (acceptance side is C08)'],
    }


def replay(ctx, w):
    TMP[0] = ctx.tmp
    c = (w['layout'], w['response_issuer'], w['assertion_issuer'], w['signing_key'], w['keyinfo'], w['signed'])
    for only, accept, exc in evaluate(c):
        if only == w['only_use_keys_in_metadata']:
            return {'violation': accept and not allowed(c, only), 'observed': [accept, exc]}
    return {'violation': False}
