"""C05 - responses are accepted only if addressed to this SP and solicited (complete product table)."""
import itertools
import re

from vp import env, world, forge, oracle
from vp.world import ACS_POST, ACS_REDIRECT, ACS_SOAP, SP_X, BINDING_HTTP_POST, BINDING_HTTP_REDIRECT, BINDING_SOAP

TMP = [None]
_sp = {}
OUTSTANDING = {'req1': '/home', 'req2': '/other'}
# what the application stored per outstanding request id: URLs, or nothing for the first request (doc['ovals'])
OVALS = {'urls': OUTSTANDING, 'none-first': {'req1': None, 'req2': '/other'}, 'empty-first': {'req1': '', 'req2': '/other'}}
REGEX = r'^https://spx\.example/acs/.*$'
# the option is applied with search semantics: a pattern that is not anchored at the start is as good ('mid')
REGEXES = {True: REGEX, 'mid': r'spx\.example/acs/[a-z]+$'}
BINDING_ARTIFACT = world.BINDING_ARTIFACT
ACS_ARTIFACT = 'https://spx.example/acs/artifact'
OWN = {BINDING_HTTP_POST: [ACS_POST], BINDING_HTTP_REDIRECT: [ACS_REDIRECT], BINDING_SOAP: [ACS_SOAP], BINDING_ARTIFACT: [ACS_ARTIFACT]}
ACS_ALL = [(ACS_POST, BINDING_HTTP_POST), (ACS_REDIRECT, BINDING_HTTP_REDIRECT), (ACS_SOAP, BINDING_SOAP), (ACS_ARTIFACT, BINDING_ARTIFACT)]
BNAME = {'HTTP-POST': BINDING_HTTP_POST, 'HTTP-Redirect': BINDING_HTTP_REDIRECT, 'SOAP': BINDING_SOAP, 'HTTP-Artifact': BINDING_ARTIFACT}
# conversation information the application may supply: none, with the entity id, without it
CONV = {False: None, True: {'entity_id': SP_X}, 'partial': {'remote_addr': '192.0.2.7'}}
OTHER = 'urn:vp:someone-else'
ADVICE_MARK = 'ADVICE-ATTRIBUTE-VALUE'

IRT = ('req1', 'unknown', None)
SCD_IRT = ('req1', 'req2', 'unknown', None)
DEST = ('own', 'own-other-binding', 'foreign', 'suffix', 'prefix', None)
AUD = {'none': (), 'me': ((SP_X,),), 'other': ((OTHER,),), 'me+other': ((SP_X, OTHER),),
       'me|other': ((SP_X,), (OTHER,)), 'other|me': ((OTHER,), (SP_X,)), 'empty': ((),),
       'substring': ((SP_X[:-2],),), 'superstring': ((SP_X + '/x',),), 'case': ((SP_X.upper(),),)}
RECIP = ('own', 'entity', 'foreign', None, 'same-as-destination')


def dest_value(d, binding):
    own = OWN[binding][0]
    if d == 'own':
        return own
    if d == 'own-other-binding':
        return ACS_REDIRECT if binding != BINDING_HTTP_REDIRECT else ACS_POST
    if d == 'foreign':
        return 'https://evil.example/acs/post'
    if d == 'suffix':
        return own + 'x'
    if d == 'prefix':
        return own[:-1]
    return None


def recip_value(r, binding, dest=None):
    if r == 'same-as-destination':
        return dest_value(dest, binding) or 'https://evil.example/acs'
    return {'own': OWN[binding][0], 'entity': SP_X, 'foreign': 'https://evil.example/acs', None: None}[r]


SPELL_AS_STRING = [False]


def sp_for(allow, regex, unsigned=False, post_only=False):
    k = (allow, regex) if not unsigned else (allow, regex, 'unsigned')
    if post_only:
        k = k + ('post-only',)
    if SPELL_AS_STRING[0]:
        k = k + ('as-string',)
    if k not in _sp:
        opts = {'allow_unsolicited': allow if not unsigned or not isinstance(allow, bool) else allow}
        if SPELL_AS_STRING[0]:
            opts['allow_unsolicited'] = 'true' if allow else 'false'      # the documented string spellings of the option
        if unsigned:
            opts['want_response_signed'] = False     # over SOAP the documents are unsigned (the reader re-serialises the body)
        if regex:
            opts['valid_destination_regex'] = REGEXES[regex]
        _sp[k] = world.make_sp(TMP[0], acs=ACS_ALL[:1] if post_only else ACS_ALL, **opts)
    return _sp[k]


def docs(thorough):
    out = []
    bindings = (BINDING_HTTP_POST, BINDING_ARTIFACT, BINDING_SOAP) if not thorough else (BINDING_HTTP_POST, BINDING_HTTP_REDIRECT, BINDING_SOAP, BINDING_ARTIFACT)
    for binding in bindings:
        for enc in (False, True):
            for irt, sirt, d, a, r in itertools.product(IRT, SCD_IRT, DEST, AUD, RECIP):
                if enc and not thorough and (d not in ('own', 'foreign') or a not in ('me', 'other', 'me|other') or r not in ('own', 'foreign')):
                    continue
                if a in ('substring', 'superstring', 'case') and (d != 'own' or r != 'own' or sirt != 'req1'):
                    continue
                if r == 'same-as-destination' and (a != 'me' or sirt != 'req1' or enc):
                    continue
                if binding != BINDING_HTTP_POST and (a not in ('me', 'other') or r != 'own'):
                    continue
                out.append(dict(binding=binding, enc=enc, irt=irt, scd=[sirt], dest=d, aud=a, recip=r))
            if binding == BINDING_HTTP_POST:
                # the option given as the strings "true" / "false"; Conditions without NotBefore / NotOnOrAfter
                for irt, sirt in itertools.product(IRT, SCD_IRT):
                    out.append(dict(binding=binding, enc=enc, irt=irt, scd=[sirt], dest='own', aud='me', recip='own', as_string=True))
                for a in AUD:
                    out.append(dict(binding=binding, enc=enc, irt='req1', scd=['req1'], dest='own', aud=a, recip='own', notimes=True))
                for adv in ('me', 'other', 'me|other', 'substring', 'none'):
                    out.append(dict(binding=binding, enc=enc, irt='req1', scd=['req1'], dest='own', aud='me', recip='own', advice=adv))
            if not enc and binding == BINDING_HTTP_POST:
                # documents nobody signed, at an SP that does not insist on signatures
                for irt, s1, d in itertools.product(IRT, SCD_IRT, ('own', 'foreign')):
                    out.append(dict(binding=binding, enc=enc, irt=irt, scd=[s1], dest=d, aud='me', recip='own', unsigned=True))
                for irt, s1, s2 in itertools.product(IRT, SCD_IRT, SCD_IRT):
                    out.append(dict(binding=binding, enc=enc, irt=irt, scd=[s1, s2], dest='own', aud='me', recip='own', unsigned=True))
                # an SP that registers a consumer endpoint for POST only, handed a response over Redirect
                for d in DEST:
                    out.append(dict(binding=BINDING_HTTP_REDIRECT, enc=False, irt='req1', scd=['req1'], dest=d, aud='me', recip='own', post_only=True))
                    out.append(dict(binding=BINDING_HTTP_REDIRECT, enc=False, irt='req1', scd=['req1'], dest=d, aud='me', recip='own', post_only=True, unsigned=True))
                # non-initial state: the same SP has just handled a message over another binding
                for b2 in (BINDING_HTTP_REDIRECT, BINDING_SOAP):
                    for d in DEST:
                        out.append(dict(binding=b2, enc=False, irt='req1', scd=['req1'], dest=d, aud='me', recip='own', prime=BINDING_HTTP_POST))
                for d in DEST:
                    out.append(dict(binding=BINDING_HTTP_POST, enc=False, irt='req1', scd=['req1'], dest=d, aud='me', recip='own', prime=BINDING_HTTP_REDIRECT))
            if not enc and (thorough or binding == BINDING_HTTP_POST):
                # two confirmations; a leading non-bearer / data-less confirmation
                for irt, s1, s2 in itertools.product(IRT, SCD_IRT, SCD_IRT):
                    out.append(dict(binding=binding, enc=enc, irt=irt, scd=[s1, s2], dest='own', aud='me', recip='own'))
                for irt, s2 in itertools.product(IRT, SCD_IRT):
                    out.append(dict(binding=binding, enc=enc, irt=irt, scd=['NODATA', s2], dest='own', aud='me', recip='own'))
                    out.append(dict(binding=binding, enc=enc, irt=irt, scd=['NODATA-bearer', s2], dest='own', aud='me', recip='own'))
                    out.append(dict(binding=binding, enc=enc, irt=irt, scd=[s2, 'NODATA-bearer'], dest='own', aud='me', recip='own'))
                    # the application stored no (or an empty) return address for the first request
                    for ov in ('none-first', 'empty-first'):
                        out.append(dict(binding=binding, enc=enc, irt=irt, scd=['NODATA-bearer', s2], dest='own', aud='me', recip='own', ovals=ov))
                        out.append(dict(binding=binding, enc=enc, irt=irt, scd=[s2], dest='own', aud='me', recip='own', ovals=ov))
    return out


def build(doc):
    now = env.BASE
    b = doc['binding']
    confs = []
    for s in doc['scd']:
        if s == 'NODATA':
            confs.append(forge.confirmation(now, method='urn:oasis:names:tc:SAML:2.0:cm:sender-vouches', has_data=False))
        elif s == 'NODATA-bearer':
            confs.append(forge.confirmation(now, has_data=False))
        else:
            confs.append(forge.confirmation(now, irt=s, recipient=recip_value(doc['recip'], b, doc['dest'])))
    a = dict(confirmations=confs, audiences=AUD[doc['aud']])
    if doc.get('notimes'):
        a.update(cond_nb=None, cond_nooa=None)        # Conditions carrying nothing but the audience restrictions
    if doc.get('advice'):
        # an assertion in the Advice with its own audience restriction; its attribute must not be honoured unless it lists me
        a['advice'] = forge.assertion(now, aid='ADV1', authn=False, audiences=AUD[doc['advice']], attrs=(('role', (ADVICE_MARK,)),))
    r = dict(irt=doc['irt'], dest=dest_value(doc['dest'], b))
    return forge.build(now, resp=r, assertions=[a], sign_resp=None if (b == BINDING_SOAP or doc.get('unsigned')) else 'idpA', encrypt='spXenc1' if doc['enc'] else None)


def required_reject(doc, allow, conv, regex):
    """Necessary conditions from the statement; returns the list of clauses that demand rejection."""
    why = []
    b = doc['binding']
    browser = b in (BINDING_HTTP_POST, BINDING_HTTP_REDIRECT, BINDING_ARTIFACT)
    scds = [s for s in doc['scd'] if s not in ('NODATA', 'NODATA-bearer')]
    if not allow:
        if doc['irt'] not in OUTSTANDING:
            why.append('a-response-not-solicited')
        elif any(s is not None and s != doc['irt'] for s in scds):
            why.append('a-confirmation-names-another-request')
    d = dest_value(doc['dest'], b)
    # (an SP registered for POST only has no endpoint at all for a message that came over another binding)
    own = [] if (doc.get('post_only') and b != BINDING_HTTP_POST) else OWN[b]
    if browser and d is not None:
        if regex:
            if not re.search(REGEXES[regex], d) and d not in own:
                why.append('b-destination-not-mine')
        elif d not in own:
            why.append('b-destination-not-mine')
    auds = AUD[doc['aud']]
    if any(SP_X not in r for r in auds):
        why.append('c-audience-restriction-does-not-list-me')
    if conv:
        rv = recip_value(doc['recip'], b, doc['dest'])
        if rv is not None and rv != SP_X and rv not in OWN[b]:
            why.append('d-recipient-not-mine')
    return why


def evaluate(doc):
    SPELL_AS_STRING[0] = bool(doc.get('as_string'))
    try:
        return _evaluate(doc)
    finally:
        SPELL_AS_STRING[0] = False


def _evaluate(doc):
    env.Clock.set(env.BASE)
    xml = build(doc)
    out = []
    for allow, conv, regex in itertools.product((False, True), (False, True, 'partial'), (False, True, 'mid')):
        if doc.get('prime'):
            _sp.pop((allow, regex), None)
        sp = sp_for(allow, regex, unsigned=(doc['binding'] == BINDING_SOAP or bool(doc.get('unsigned'))), post_only=bool(doc.get('post_only')))
        if doc.get('prime'):
            pd = dict(binding=doc['prime'], enc=False, irt='req1', scd=['req1'], dest='own', aud='me', recip='own')
            first = oracle.accept_response(sp, build(pd), binding=doc['prime'], outstanding=OUTSTANDING)
            _sp.pop((allow, regex), None)
            if not first['accept']:
                out.append({'allow': allow, 'conv': conv, 'regex': regex, 'accept': False, 'exc': 'PRIMING-REJECTED', 'why': [], 'came_from': None})
                continue
        ovals = OVALS[doc.get('ovals', 'urls')]
        obs = oracle.accept_response(sp, xml, binding=doc['binding'], outstanding=ovals,
                                     conv_info=CONV[conv])
        why = required_reject(doc, allow, conv, regex) if obs['accept'] else []
        if obs['accept'] and doc.get('advice') and ADVICE_MARK in repr(obs['identity'].get('ava')) and any(SP_X not in r for r in AUD[doc['advice']]):
            why = why + ['c-audience-restriction-of-an-honoured-advice-assertion-does-not-list-me']
        cf = None
        if obs['accept'] and doc['irt'] in OUTSTANDING and not why and doc['binding'] != BINDING_SOAP:
            # (over the synchronous binding no return address is kept: not part of the statement)
            if obs['identity']['came_from'] != ovals[doc['irt']]:
                cf = 'came_from-is-not-the-matched-requests'
        out.append({'allow': allow, 'conv': conv, 'regex': regex, 'accept': obs['accept'], 'exc': obs.get('exc'),
                    'why': why, 'came_from': cf})
    return out


def run(ctx):
    TMP[0] = ctx.tmp
    ds = docs(ctx.thorough)
    res = ctx.pmap(evaluate, ds)
    ctx.recheck(evaluate, ds, res, n=24)
    n = 0
    acc = 0
    nontriv = set()
    hist = {}
    for doc, outs in zip(ds, res):
        for o in outs:
            n += 1
            acc += o['accept']
            k = 'ACCEPT' if o['accept'] else 'REJECT:%s' % o['exc']
            hist[k] = hist.get(k, 0) + 1
            rr = required_reject(doc, o['allow'], o['conv'], o['regex'])
            if rr:
                nontriv.add((repr(sorted(doc.items())), o['allow'], o['conv'], o['regex']))
            for y in o['why']:
                key = {'kind': y, 'allow_unsolicited': o['allow'], 'conv_info': o['conv'], 'regex': o['regex'], 'enc': doc['enc'],
                       'binding': doc['binding'].rsplit(':', 1)[1], 'irt': doc['irt'], 'scd': doc['scd'], 'dest': doc['dest'], 'stored': doc.get('ovals', 'urls'),
                       'aud': doc['aud'], 'advice_aud': doc.get('advice'), 'option_as_string': bool(doc.get('as_string')), 'conditions_without_times': bool(doc.get('notimes')), 'recip': doc['recip'], 'primed_by': (doc.get('prime') or '').rsplit(':', 1)[-1] or None}
                ctx.violation(key, {})
            if o['came_from']:
                ctx.violation({'kind': o['came_from'], 'allow_unsolicited': o['allow'], 'irt': doc['irt'], 'scd': doc['scd'],
                               'enc': doc['enc'], 'binding': doc['binding'].rsplit(':', 1)[1], 'dest': doc['dest'], 'aud': doc['aud'],
                               'recip': doc['recip'], 'conv_info': o['conv'], 'regex': o['regex'], 'stored': doc.get('ovals', 'urls')}, {})
    if acc == 0:
        ctx.note('VACUOUS: nothing accepted')
    i0 = len(ds) // 3
    return {
        'level': 'exploration',
        'coverage': {
            'evaluations': n, 'distinct_nontrivial': len(nontriv), 'exhaustive': True, 'accepted': acc, 'vacuous': acc == 0,
            'rule': 'complete product: response InResponseTo x bearer-confirmation InResponseTo (one%s) x Destination x AudienceRestriction layouts x Recipient x plain/encrypted%s, each document under allow_unsolicited x conversation-info x destination-pattern (8 settings) through the real SP; non-trivial = cells in which at least one clause of the statement demands rejection' % (', two, data-less first' if ctx.thorough else '', ' x POST/Redirect/SOAP' if ctx.thorough else ' (POST)'),
            'samples': [{'document': ds[i0], 'outcomes': res[i0][:2]}],
            'distinct_outcomes': len(hist), 'outcome_histogram': hist, 'documents': len(ds),
        },
        'assumptions': ['one-directional oracle: only acceptance is questioned (necessary conditions (a)-(d) of the statement)', 'xmlsec1 model at the seam'],
    }


def replay(ctx, w):
    TMP[0] = ctx.tmp
    b = BNAME[w['binding']]
    doc = dict(binding=b, enc=w['enc'], irt=w['irt'], scd=w['scd'], dest=w['dest'], aud=w['aud'], recip=w['recip'], ovals=w.get('stored', 'urls'),
               advice=w.get('advice_aud'), as_string=w.get('option_as_string'), notimes=w.get('conditions_without_times'))
    if w.get('primed_by'):
        doc['prime'] = BNAME[w['primed_by']]
    outs = evaluate(doc)
    for o in outs:
        if (o['allow'], o['conv'], o['regex']) == (w['allow_unsolicited'], w['conv_info'], w['regex']):
            return {'violation': bool(o['why'] or o['came_from']), 'observed': o}
    return {'violation': False}
