"""C19 - the SP session cache returns only unexpired data of the right subject.

Op-sequence state graph over real Cache / Population objects (memory and shelve back-ends) against a reference
dict under the virtual clock."""
import os

from vp import env

PERSISTENT = 'urn:oasis:names:tc:SAML:2.0:nameid-format:persistent'
TRANSIENT = 'urn:oasis:names:tc:SAML:2.0:nameid-format:transient'
EMAIL = 'urn:oasis:names:tc:SAML:1.1:nameid-format:emailAddress'
ATTR = ["name_qualifier", "sp_name_qualifier", "format", "sp_provided_id", "text"]

# subjects: same text; differ from s1 in exactly one field
SUBJECTS = {
    's1': (None, 'urn:sp', PERSISTENT, None, 'subject-x'),
    's2': (None, 'urn:sp', TRANSIENT, None, 'subject-x'),
    's3': (None, None, PERSISTENT, None, 'subject-x'),
    's4': ('urn:idp', 'urn:sp', PERSISTENT, None, 'subject-x'),
    # a pair whose storage keys would coincide if separators inside field values were not escaped
    's5': ('q', 'r', None, None, 'subject-x'),
    's6': ('q,1=r', None, None, None, 'subject-x'),
    # a pair of mail-address identifiers that differ in letter case only (identifiers are compared as exact strings)
    's7': (None, 'urn:sp', EMAIL, None, 'Jane.Doe@example.com'),
    's8': (None, 'urn:sp', EMAIL, None, 'jane.doe@example.com'),
}
SPELL = ('int', 'str', 'struct')      # how the caller spells an expiry: seconds, SAML instant, struct_time
SOURCES = ('idp1', 'idp2')
INFOS = {
    'k0': {'ava': {'a': ['1'], 'b': ['x']}},
    'k1': {'ava': {'a': ['2', '1'], 'c': ['y']}, 'name_id': True, 'session_index': 'si'},
}
EXPIRIES = (-10, 0, 20)
TICK = 20


def nid(f):
    from saml2_tophat.saml import NameID
    return NameID(name_qualifier=f[0], sp_name_qualifier=f[1], format=f[2], sp_provided_id=f[3], text=f[4])


# calling styles: 'shared' = the caller keeps ONE NameID object and rewrites its fields for every call;
# 'iter' = entity lists are handed over as one-shot iterators
MODE = {'shared': False, 'iter': False}
_TEMPLATE = []


def N(f):
    if not MODE['shared']:
        return nid(f)
    if not _TEMPLATE:
        _TEMPLATE.append(nid(f))
    t = _TEMPLATE[0]
    t.name_qualifier, t.sp_name_qualifier, t.format, t.sp_provided_id, t.text = f
    return t


def fields(n):
    return tuple((getattr(n, a, None) or None) for a in ATTR)


class Ref(object):
    def __init__(self):
        self.db = {}     # subj -> {src: (expiry_abs, infokey or None)}

    def valid(self, rec, check):
        exp, k = rec[0], rec[1]
        if k is None:
            return False
        if check and env.Clock.now > exp:
            return False
        return True


class World(object):
    def __init__(self, backend, path=None, via_population=False):
        from saml2_tophat.cache import Cache
        from saml2_tophat.population import Population
        env.Clock.set(env.BASE)
        self.backend = backend
        self.path = path
        if backend == 'shelve':
            for ext in ('', '.db', '.dat', '.dir', '.bak'):
                try:
                    os.unlink(path + ext)
                except OSError:
                    pass
            self.cache = Cache(path)
        else:
            self.cache = Cache()
        self.pop = Population(self.cache)
        self.ref = Ref()

    def reopen(self):
        from saml2_tophat.cache import Cache
        from saml2_tophat.population import Population
        if self.backend == 'shelve':
            self.cache._db.close()
            self.cache = Cache(self.path)
            self.pop = Population(self.cache)

    def close(self):
        if self.backend == 'shelve':
            try:
                self.cache._db.close()
            except Exception:
                pass


def info_for(k, subj):
    i = {kk: (dict((a, list(b)) for a, b in v.items()) if kk == 'ava' else v) for kk, v in INFOS[k].items()}
    if i.get('name_id'):
        i['name_id'] = nid(SUBJECTS[subj])
    return i


def apply_op(w, op):
    k = op[0]
    ref = w.ref.db
    if k == 'set':
        _k, s, src, ik, off = op
        exp = env.BASE + off
        # the spelling of the expiry is a function of the operation (all three are accepted by the cache)
        import zlib
        how = SPELL[zlib.crc32(repr(op).encode()) % 3]
        arg = exp if how == 'int' else (env._real_strftime('%Y-%m-%dT%H:%M:%SZ', env._real_gmtime(exp)) if how == 'str' else env._real_gmtime(exp))
        w.cache.set(N(SUBJECTS[s]), src, info_for(ik, s), arg)
        ref.setdefault(s, {})[src] = (exp, ik)
    elif k == 'add':      # through Population, as the client does on login
        _k, s, src, ik, off = op
        exp = env.BASE + off
        si = info_for(ik, s)
        si['name_id'] = nid(SUBJECTS[s])
        si['issuer'] = src
        si['not_on_or_after'] = exp
        w.pop.add_information_about_person(si)
        ref.setdefault(s, {})[src] = (exp, ik, True)
    elif k == 'tick':
        env.Clock.advance(TICK)
    elif k == 'reset':
        _k, s, src = op
        w.cache.reset(N(SUBJECTS[s]), src)
        ref.setdefault(s, {})[src] = (0, None)
    elif k == 'delete':
        _k, s = op
        try:
            w.pop.remove_person(N(SUBJECTS[s]))
        except Exception:            # which exception an unknown subject gets is not specified
            if s in ref:
                return ['delete-of-known-subject-raised']
        ref.pop(s, None)
    elif k == 'reopen':
        w.reopen()
    return []


def norm_ava(ava):
    return {a: sorted(set(v)) for a, v in (ava or {}).items()}


def observe(w):
    """All observable queries -> list of (query, result) with results in comparable normal form.
    'NODATA' = exception / nothing (unspecified for unknown keys)."""
    from saml2_tophat.cache import ToOld
    out = []
    c, p = w.cache, w.pop
    for s, f in SUBJECTS.items():
        n = N(f)
        for src in SOURCES:
            for check in (True, False):
                try:
                    r = p.get_info_from(n, src, check)
                    if r is None:
                        v = ('EMPTY',)
                    else:
                        v = ('INFO', norm_ava(r.get('ava')), fields(r['name_id']) if r.get('name_id') is not None else None)
                except ToOld:
                    v = ('TOOLD',)
                except Exception:
                    v = ('NODATA',)
                out.append((('get', s, src, check), v))
            try:
                v = bool(c.active(n, src))
            except Exception:
                v = 'NODATA'
            out.append((('active', s, src), v))
        for ents in (None, ['idp1'], ['idp1', 'idp2']):
            for check in (True, False):
                try:
                    ava, old = p.get_identity(N(f), (iter(list(ents)) if MODE['iter'] else ents) if ents else ents, check)
                    v = (norm_ava(ava), sorted(old))
                except Exception:
                    v = 'NODATA'
                out.append((('identity', s, tuple(ents) if ents else None, check), v))
        try:
            v = sorted(c.entities(n))
        except Exception:
            v = 'NODATA'
        out.append((('entities', s), v))
        try:
            v = sorted(p.stale_sources_for_person(n))
        except Exception:
            v = 'NODATA'
        out.append((('stale', s), v))
    try:
        v = sorted(tuple(str(x) for x in fields(x)) for x in c.subjects())
    except Exception:
        v = 'NODATA'
    out.append((('subjects',), v))
    return out


def expected(w):
    ref = w.ref
    now = env.Clock.now
    out = []
    for s, f in SUBJECTS.items():
        recs = ref.db.get(s)
        for src in SOURCES:
            rec = recs.get(src) if recs else None
            for check in (True, False):
                if rec is None:
                    v = ('NODATA',)
                elif rec[1] is None:
                    v = ('TOOLD',) if check else ('EMPTY',)      # reset: expiry 0 reads as expired when checking
                elif check and now > rec[0]:      # at now == expiry the time has not passed: still valid
                    v = ('TOOLD',)
                else:
                    i = INFOS[rec[1]]
                    v = ('INFO', norm_ava(i['ava']), tuple(SUBJECTS[s]) if (i.get('name_id') or len(rec) > 2) else None)
                out.append((('get', s, src, check), v))
            if rec is None:
                v = False
            else:
                v = bool(rec[1] is not None and now <= rec[0])
            out.append((('active', s, src), v))
        for ents in (None, ['idp1'], ['idp1', 'idp2']):
            for check in (True, False):
                if recs is None:
                    v = ({}, []) if ents is None else 'NODATA'
                else:
                    srcs = list(recs.keys()) if not ents else ents
                    if any(x not in recs for x in srcs):
                        v = 'NODATA'
                    else:
                        ava, old = {}, []
                        for x in srcs:
                            if ref.valid(recs[x], check):
                                for a, vals in INFOS[recs[x][1]]['ava'].items():
                                    ava.setdefault(a, set()).update(vals)
                            else:
                                old.append(x)
                        v = ({a: sorted(x) for a, x in ava.items()}, sorted(old))
                out.append((('identity', s, tuple(ents) if ents else None, check), v))
        out.append((('entities', s), sorted(recs.keys()) if recs is not None else 'NODATA'))
        if recs is None:
            v = 'NODATA'
        else:
            v = sorted(x for x in recs if not (recs[x][1] is not None and now <= recs[x][0]))
        out.append((('stale', s), v))
    out.append((('subjects',), sorted(tuple(str(x) for x in SUBJECTS[s]) for s in ref.db)))
    return out


def compare(obs, exp):
    bad = []
    for (q, got), (q2, want) in zip(obs, exp):
        assert q == q2
        if want == 'NODATA' or want == ('NODATA',):
            # unspecified for unknown keys: anything that is not *data* is fine
            if isinstance(got, tuple) and got and got[0] == 'INFO':
                bad.append(('data-for-unknown-key', q))
            elif q[0] == 'identity' and got != 'NODATA' and got[0]:
                bad.append(('identity-for-unknown-subject', q))
            continue
        if got == 'NODATA' or got == ('NODATA',):
            if q[0] in ('get',) and want in (('TOOLD',), ('EMPTY',)):
                continue
            bad.append(('no-answer-for-known-key', q))
            continue
        if got != want:
            if q[0] == 'get' and want[0] in ('TOOLD', 'EMPTY') and got[0] in ('TOOLD', 'EMPTY'):
                continue
            kind = q[0]
            if q[0] in ('get', 'identity') and want in (('TOOLD',),) or (q[0] == 'identity' and isinstance(got, tuple) and isinstance(want, tuple) and set(map(str, got[0].items())) - set(map(str, want[0].items()))):
                kind = q[0] + '-returns-expired-reset-or-foreign-data'
            bad.append((kind + '-differs', q))
    return bad


def many_subjects(n):
    """A subject with one valid and one expired source in a cache that then receives n other subjects: its answers
    still follow the reference."""
    from saml2_tophat.saml import NameID
    with env.in_zone('UTC'):
        w = World('memory')
        for op in (('set', 's1', 'idp1', 'k0', 20), ('set', 's1', 'idp2', 'k1', -10), ('set', 's2', 'idp1', 'k1', 20), ('reset', 's2', 'idp2')):
            apply_op(w, op)
        for i in range(n):
            w.cache.set(NameID(text='many-%d' % i, format=PERSISTENT, sp_name_qualifier='urn:sp'), 'idp1', {'ava': {'a': [str(i)]}}, env.BASE + 1000)
        obs = [(q, v) for q, v in observe(w) if q[0] != 'subjects']
        exp = [(q, v) for q, v in expected(w) if q[0] != 'subjects']
        bad = compare(obs, exp)
        try:
            listed = len(list(w.cache.subjects()))
        except Exception:
            listed = -1
        if not bad and listed != n + 2:
            bad = [('subjects-listing-count-%d-instead-of-%d' % (listed, n + 2), ('subjects',))]
    return n, sorted(set((b[0], str(b[1])) for b in bad))[:6]


def forms_eval(hist):
    """The history once more under the other calling styles (one shared NameID object, iterators as entity lists):
    all answers still follow the reference."""
    out = []
    for shared, it in ((True, False), (False, True), (True, True)):
        MODE['shared'], MODE['iter'] = shared, it
        del _TEMPLATE[:]
        try:
            with env.in_zone('UTC'):
                w = World('memory')
                bad = []
                for op in hist:
                    bad = apply_op(w, tuple(op))
                    if bad:
                        break
                if not bad:
                    bad = compare(observe(w), expected(w))
                if not bad and len(hist) > 1:
                    # and once more after a read in between
                    w2 = World('memory')
                    for op in hist[:-1]:
                        apply_op(w2, tuple(op))
                    observe(w2)
                    apply_op(w2, tuple(hist[-1]))
                    bad = compare(observe(w2), expected(w2))
        finally:
            MODE['shared'], MODE['iter'] = False, False
        for b in bad[:3]:
            out.append((('shared-nameid' if shared else '') + ('+' if shared and it else '') + ('iterator-entities' if it else ''), b[0], str(b[1])))
    return hist, out


def forms_chunk(first):
    ops = ops_alphabet()
    res = [forms_eval([list(first)])]
    for op in ops:
        res.append(forms_eval([list(first), list(op)]))
    return [(h, o) for h, o in res if o], len(res)


def canon(w):
    return repr((sorted((k, sorted(v.items())) for k, v in w.ref.db.items()), env.Clock.now - env.BASE))


CFG = {}


def ops_alphabet():
    subs = CFG['subjects']
    ops = [('tick',)]
    for s in subs:
        for src in SOURCES:
            for ik in INFOS:
                for off in CFG['expiries']:
                    ops.append(('set', s, src, ik, off))
            ops.append(('add', s, src, 'k1', 0))
            ops.append(('add', s, src, 'k0', 20))
            ops.append(('reset', s, src))
        ops.append(('delete', s))
    return ops


def run_history(hist, backend='memory', path=None, reopen=False):
    with env.in_zone(env.zone_of(hist)):
        return _run_history(hist, backend, path, reopen)


def _run_history(hist, backend='memory', path=None, reopen=False):
    w = World(backend, path)
    bad = []
    for i, op in enumerate(hist):
        bad = apply_op(w, tuple(op))
        if reopen:
            w.reopen()
        if bad:
            break
        if i + 1 < len(hist):
            observe(w)       # every query runs after every step (reads must not change what later reads return)
    return w, bad


def expand(hist):
    with env.in_zone(env.zone_of(hist)):
        return _expand(hist)


def _expand(hist):
    import copy
    ops = ops_alphabet()
    kids, viol = [], []
    parent, pbad = run_history(hist)
    if hist:
        observe(parent)
    pclock = env.Clock.now
    for op in ops:
        h2 = list(hist) + [list(op)]
        # the in-memory world is copied instead of replayed (same operations, same order)
        w = copy.deepcopy(parent)
        env.Clock.set(pclock)
        bad = apply_op(w, tuple(op))
        obs = observe(w)
        if not bad:
            bad = compare(obs, expected(w))
        key = canon(w)
        # file-backed cache must behave identically, step for step
        if CFG['shelve'] and len(h2) <= CFG['shelve_depth']:
            ws, bad2 = run_history(h2, 'shelve', os.path.join(CFG['tmp'], 'cache-%d' % os.getpid()), reopen=CFG['reopen'])
            obs2 = observe(ws)
            ws.close()
            if obs2 != obs:
                diff = [q for (q, a), (_q, b) in zip(obs, obs2) if a != b]
                bad = list(bad) + [('memory-and-file-backed-differ', diff[0])]
        if bad:
            viol.append((h2, sorted(set((b[0], str(b[1])) for b in bad))[:6]))
        else:
            kids.append((h2, key))
    return kids, viol, len(ops)


def bfs(ctx, depth, max_states):
    w0, _ = run_history([])
    seen = {canon(w0): []}
    frontier = [[]]
    transitions = 0
    by_depth = [1]
    capped = False
    samples = []
    for d in range(depth):
        res = ctx.pmap(expand, frontier, chunksize=2)
        if d == 0:
            ctx.recheck(expand, frontier, res, n=2)
        nxt = []
        for kids, viol, nops in res:
            transitions += nops
            for hist, why in viol:
                for kind, q in why[:3]:
                    ctx.violation({'kind': 'history', 'why': kind, 'query': q, 'last_op': hist[-1][0], 'ops': hist}, {})
            for hist, key in kids:
                if len(hist) <= CFG['nodedup']:
                    key = repr(hist)       # short histories are never merged: hidden state (memos) shows in their futures
                if key not in seen:
                    seen[key] = hist
                    nxt.append(hist)
        by_depth.append(len(nxt))
        if nxt:
            samples.append(nxt[len(nxt) // 2])
        frontier = nxt
        if len(seen) > max_states and d + 1 < depth:
            ctx.cap('state cap %d reached after depth %d' % (max_states, d + 1))
            capped = True
            break
    return seen, transitions, by_depth, capped, samples, frontier


def run(ctx):
    CFG['tmp'] = ctx.tmp
    if os.path.isdir('/dev/shm') and os.access('/dev/shm', os.W_OK):
        import tempfile, atexit, shutil
        CFG['tmp'] = tempfile.mkdtemp(prefix='vp-c19-', dir='/dev/shm')
        atexit.register(shutil.rmtree, CFG['tmp'], True)
    CFG['subjects'] = ('s1', 's2', 's3') if not ctx.thorough else ('s1', 's2', 's3', 's4')
    CFG['expiries'] = EXPIRIES
    CFG['shelve'] = True
    CFG['nodedup'] = 2
    CFG['shelve_depth'] = 2 if not ctx.thorough else 3
    CFG['reopen'] = ctx.thorough
    depth = 3 if not ctx.thorough else 4
    max_states = 4000 if not ctx.thorough else 20000
    seen, transitions, by_depth, capped, samples, frontier = bfs(ctx, depth, max_states)
    # second pass: the pair of subjects whose keys would collide without escaping (with s1 for company)
    main_subjects = CFG['subjects']
    CFG['subjects'] = ('s5', 's6')
    seen2, tr2, by2, _cap2, _s2, _f2 = bfs(ctx, 3, 10 ** 9)
    CFG['subjects'] = ('s7', 's8')
    seen3, tr3, _by3, _cap3, _s3, _f3 = bfs(ctx, 2, 10 ** 9)
    CFG['subjects'] = main_subjects
    transitions += tr2 + tr3
    w0, _ = run_history([])
    # other calling styles over every history of length <= 2
    CFG['subjects'] = ('s1', 's2')
    n_forms = 0
    for bad_list, n_ in ctx.pmap(forms_chunk, ops_alphabet(), chunksize=2):
        n_forms += n_
        for h, outs in bad_list[:5]:
            for style, kind, q in outs[:2]:
                ctx.violation({'kind': 'calling-style', 'style': style, 'why': kind, 'query': q, 'ops': h}, {})
    CFG['subjects'] = main_subjects
    transitions += n_forms
    # a cache holding many subjects
    n_many = 0
    for n_, bad in ctx.pmap(many_subjects, [5, 999, 1001, 1100, 2100, 5000], chunksize=1):
        n_many += 1
        for kind, q in bad[:3]:
            ctx.violation({'kind': 'many-subjects', 'why': kind, 'query': q, 'count': n_}, {})
    return {
        'level': 'model_checking',
        'coverage': {
            'states': len(seen) + len(seen2), 'states_collision_pair_pass': len(seen2), 'many_subject_cases': n_many, 'transitions': transitions, 'traces_validated_against_impl': transitions,
            'samples': [{'history': s} for s in samples[:3]] or [{'history': []}], 'exhaustive': not capped,
            'max_depth': depth, 'states_by_depth': by_depth, 'frontier_at_bound': len(frontier),
            'queries_per_state': len(observe(w0)),
            'alphabet': {'subjects': {s: SUBJECTS[s] for s in CFG['subjects']}, 'sources': SOURCES, 'infos': sorted(INFOS),
                         'expiry_offsets': EXPIRIES, 'tick': TICK},
            'calling_style_histories': n_forms, 'rule': 'every history of length <= 2 over two subjects again with one shared NameID object rewritten per call and with entity lists handed over as iterators; a cache that receives 5 / 999 / 1001 / 1100 / 2100 / 5000 further subjects while one subject has a valid and an expired source; a second BFS pass (depth 3) over two subjects whose storage keys would coincide without escaping of separators; expiries passed as seconds / SAML instant / struct_time (a function of the operation); BFS over histories of set/add(Population)/tick/reset/delete on a fresh real Cache (memory) and the same history on the shelve-backed Cache%s (quick: every history of length <= 2; thorough: length <= 3); after every step %d queries (get, active, get_identity with entity lists, entities, stale sources, subjects; with and without expiry checking) are compared with a reference dict under the virtual clock and between the two back-ends; states merged by (reference content, clock) from depth 3 on (histories of length <= 2 are all kept distinct, so that implementation state the reference does not have - caches, memos - is exposed by their futures)' % (' reopened between steps' if ctx.thorough else '', len(observe(w0))),
        },
        'assumptions': ['every history is evaluated in a process time zone (UTC, UTC+5, UTC-5) chosen as a function of the history: results must not depend on it',
                        'expiry exactly at now counts as not yet passed (the quantifier lists before/at/after); expiry 0 with non-empty info is not generated',
                        'queries on never-stored subjects/sources: any exception or empty result counts as no data'],
    }


def replay(ctx, w):
    CFG['tmp'] = ctx.tmp
    if w.get('kind') == 'many-subjects':
        n_, bad = many_subjects(w['count'])
        return {'violation': bool(bad), 'why': bad}
    CFG['subjects'] = ('s1', 's2', 's3', 's4', 's5', 's6')
    CFG['expiries'] = EXPIRIES
    CFG['shelve'] = True
    CFG['reopen'] = False
    CFG['nodedup'] = 2
    CFG['shelve_depth'] = 99
    with env.in_zone(env.zone_of(w['ops'][:-1])):        # the zone the exploration evaluated this transition in
        wd, bad = _run_history(w['ops'])
        obs = observe(wd)
        if not bad:
            bad = compare(obs, expected(wd))
    return {'violation': bool(bad), 'why': [(b[0], str(b[1])) for b in bad][:5]}
