"""C06 - only successful SAML 2.0 responses ever yield an identity (complete product table)."""
import itertools

from vp import env, world, forge, oracle
from vp.world import BINDING_HTTP_REDIRECT, BINDING_SOAP, BINDING_HTTP_POST

TMP = [None]
_c = {}
ST = 'urn:oasis:names:tc:SAML:2.0:status:'
SECOND = ['VersionMismatch', 'AuthnFailed', 'InvalidAttrNameOrValue', 'InvalidNameIDPolicy', 'NoAuthnContext',
          'NoAvailableIDP', 'NoPassive', 'NoSupportedIDP', 'PartialLogout', 'ProxyCountExceeded', 'RequestDenied',
          'RequestUnsupported', 'RequestVersionDeprecated', 'RequestVersionTooHigh', 'RequestVersionTooLow',
          'ResourceNotRecognized', 'TooManyResponses', 'UnknownAttrProfile', 'UnknownPrincipal', 'UnsupportedBinding',
          'Responder']
# values that are *nearly* the Success URN (prefix, suffix, infix, longer, other case, empty): none of them is Success
NEAR = {'near:prefix': ST[:-1], 'near:shorter': ST + 'Succes', 'near:tail': 'status:Success', 'near:bare': 'Success',
        'near:longer': ST + 'SuccessX', 'near:case': ST + 'success', 'near:empty': ''}
TOP = ['Success', 'Requester', 'Responder', 'VersionMismatch', 'urn:vp:unknown-status', None, 'NOSTATUS'] + sorted(NEAR)
# None = the Version attribute is absent
VERSIONS = ['2.0', '1.0', '1.1', '2.1', '3.0', 'two', '', '2', '2.00', '02.0', ' 2.0', '2.0 ', '2e0', '+2.0', 'NaN', '2,0', '2.0.0', None]
PAYLOAD = ['none', 'assertion-signed', 'both-signed']


DETAILS = {
    'detail-empty': '<samlp:StatusDetail/>',
    'detail-text-child': '<samlp:StatusDetail><x:Cause xmlns:x="urn:vp:x">account locked</x:Cause></samlp:StatusDetail>',
    'detail-childless-child': '<samlp:StatusDetail><x:Cause xmlns:x="urn:vp:x" code="17"/></samlp:StatusDetail>',
    'detail-nested': '<samlp:StatusDetail><x:Cause xmlns:x="urn:vp:x"><x:Code>17</x:Code><x:Hint/></x:Cause><x:More xmlns:x="urn:vp:x">m</x:More></samlp:StatusDetail>',
    'detail-saml-child': '<samlp:StatusDetail><samlp:StatusCode Value="%sSuccess"/></samlp:StatusDetail>' % ST,
}
XVARS = ['q-version-after', 'q-version-before', 'q-value-after', 'q-value-before'] + sorted(DETAILS)


def xvariant(xml, var, ver):
    if var.startswith('q-version'):
        real = ' Version="%s"' % ver
        assert xml.count('<samlp:Response') == 1 and real in xml.split('>', 1)[0]
        head, rest = xml.split('>', 1)
        fake = ' samlp:Version="2.0"'
        head = head.replace(real, real + fake if var.endswith('after') else fake + real, 1)
        return head + '>' + rest
    if var.startswith('q-value'):
        i = xml.index('<samlp:StatusCode Value="')
        j = xml.index('"', i + len('<samlp:StatusCode Value="')) + 1
        real = xml[i + len('<samlp:StatusCode'):j]
        fake = ' samlp:Value="%sSuccess"' % ST
        return xml[:i] + '<samlp:StatusCode' + (real + fake if var.endswith('after') else fake + real) + xml[j:]
    assert xml.count('</samlp:Status>') == 1
    return xml.replace('</samlp:Status>', DETAILS[var] + '</samlp:Status>')


def sp():
    if 'sp' not in _c:
        _c['sp'] = world.make_sp(TMP[0], want_response_signed=False)
    return _c['sp']


def idp():
    if 'idp' not in _c:
        _c['idp'] = world.make_idp(TMP[0])
    return _c['idp']


def uri(x):
    if x is None:
        return None
    if x in NEAR:
        return NEAR[x]
    return x if ':' in x else ST + x


def cells(thorough):
    out = []
    for top, sec, msg, pay in itertools.product(TOP, [None] + SECOND + ['urn:vp:unknown-second'], (False, True), PAYLOAD):
        out.append(('resp', top, sec, msg, pay, '2.0'))
    for v, pay, top in itertools.product(VERSIONS[1:], PAYLOAD, ('Success', 'Responder')):
        out.append(('resp', top, None, False, pay, v))
    # the same rules over the synchronous binding (SOAP), where the response handler runs with asynchop off
    # (no response signature here: the SOAP reader re-serialises the body, a response signature made over other
    # prefixes does not survive it and the signature check legitimately comes first)
    for top, sec, pay in itertools.product(TOP, (None, 'AuthnFailed', 'RequestDenied', 'urn:vp:unknown-second'), PAYLOAD[:2]):
        out.append(('resp', top, sec, False, pay, '2.0', 'soap'))
    for v in VERSIONS[1:]:
        out.append(('resp', 'Success', None, False, 'assertion-signed', v, 'soap'))
    # status codes nested three levels deep: the class is decided by the second level
    for top, sec, third, pay in itertools.product(('Responder', 'Requester'), ('RequestDenied', 'AuthnFailed', 'urn:vp:unknown-second'),
                                                  ('AuthnFailed', 'NoPassive', 'urn:vp:private-third'), PAYLOAD[:2]):
        out.append(('resp', top, sec, False, pay, '2.0', 'post', third))
    # one response handler object consuming two messages in turn (response.authn_response + loads/verify, with and
    # without clear() in between): first a genuine Success response, then a non-Success / non-2.0 one
    for clear in (False, True):
        for top, sec in (('Responder', 'AuthnFailed'), ('Requester', None), ('near:shorter', None), (None, None), ('NOSTATUS', None)):
            for pay in PAYLOAD[1:]:
                out.append(('reuse', clear, top, sec, pay, '2.0'))
        for v in ('1.0', '2.1', None):
            out.append(('reuse', clear, 'Success', None, 'assertion-signed', v))
    # string-level variants of the (unsigned) envelope: a namespace-qualified look-alike of Version / Value next to the
    # real attribute (two different attributes for XML), and StatusDetail elements of several shapes
    for var in XVARS:
        for pay in PAYLOAD[:2]:
            if var.startswith('q-version'):
                for v in ('1.0', '1.1', '2.1', 'two'):
                    out.append(('respx', 'Success', None, var, pay, v))
            elif var.startswith('q-value'):
                for top, sec in (('Responder', None), ('Requester', 'AuthnFailed'), ('Responder', 'NoPassive'), ('urn:vp:unknown-status', None)):
                    out.append(('respx', top, sec, var, pay, '2.0'))
            else:
                for top, sec in (('Responder', None), ('Responder', 'AuthnFailed'), ('Requester', 'NoPassive'), ('Requester', 'RequestDenied'),
                                 ('Responder', 'urn:vp:unknown-second'), ('Success', None)):
                    out.append(('respx', top, sec, var, pay, '2.0'))
    for kind, binding in (('AuthnRequest', 'redirect'), ('AuthnRequest', 'post'), ('LogoutRequest', 'soap'), ('AttributeQuery', 'soap')):
        for v in VERSIONS:
            out.append(('req', kind, binding, v))
            if kind == 'AuthnRequest':
                # reply endpoint chosen by index instead of URL
                out.append(('req', kind, binding, v, 'index'))
    return out


def document(top, sec, msg, pay, ver, irt='req1', subject='alice', third=None):
    r = dict(version=ver, status=uri(top) if top not in (None, 'NOSTATUS') else None, status2=uri(sec), status3=uri(third),
             status_msg='something went wrong' if msg else None, has_status=(top != 'NOSTATUS'), irt=irt)
    kw = dict(resp=r)
    if pay == 'none':
        kw['assertions'] = []
    else:
        kw['assertions'] = [dict(subject=subject, confirmations=[forge.confirmation(env.BASE, irt=irt)])]
        kw['sign_ass'] = 'idpA'
        if pay == 'both-signed':
            kw['sign_resp'] = 'idpA'
    return forge.build(env.BASE, **kw)


def consume(handler, xml):
    try:
        handler.loads(xml, False, origxml=xml)
        r = handler.verify()
        if r is None:
            return {'accept': False, 'exc': 'None'}
        if r.assertion is None:
            return {'accept': False, 'exc': 'NoAssertion'}
        r.session_info()
        return {'accept': True, 'exc': None, 'subject': r.name_id.text if r.name_id is not None else None}
    except Exception as e:
        return {'accept': False, 'exc': type(e).__name__}


def evaluate(cell):
    env.Clock.set(env.BASE)
    if cell[0] == 'resp':
        _k, top, sec, msg, pay, ver = cell[:6]
        soap = len(cell) > 6 and cell[6] == 'soap'
        xml = document(top, sec, msg, pay, ver, third=cell[7] if len(cell) > 7 else None)
        obs = oracle.accept_response(sp(), xml, binding=BINDING_SOAP) if soap else oracle.accept_response(sp(), xml)
        return {'accept': obs['accept'], 'exc': obs.get('exc')}
    if cell[0] == 'respx':
        _k, top, sec, var, pay, ver = cell
        xml = xvariant(document(top, sec, False, pay, ver), var, ver)
        obs = oracle.accept_response(sp(), xml)
        return {'accept': obs['accept'], 'exc': obs.get('exc')}
    if cell[0] == 'reuse':
        from saml2_tophat import response as s2response
        _k, clear, top, sec, pay, ver = cell
        h = s2response.authn_response(sp().config, [world.ACS_POST], outstanding_queries={'req1': '/home', 'req2': '/other'})
        first = consume(h, document('Success', None, False, pay, '2.0'))
        if clear:
            h.clear()
        second = consume(h, document(top, sec, False, pay, ver, irt='req2', subject='mallory'))
        return {'accept': second['accept'], 'exc': second['exc'], 'first': first['accept']}
    _k, kind, binding, ver = cell[:4]
    by_index = len(cell) > 4
    server = idp()
    dest = {'AuthnRequest': world.SSO_A if binding == 'redirect' else world.SSO_A + '/post',
            'LogoutRequest': world.SLO_A, 'AttributeQuery': None}[kind]
    xml = forge.request(env.BASE, kind=kind, version=ver, dest=dest, acs_index=0 if by_index else None)
    try:
        if kind == 'AuthnRequest':
            if binding == 'redirect':
                r = server.parse_authn_request(forge.enc_redirect(xml), BINDING_HTTP_REDIRECT)
            else:
                r = server.parse_authn_request(forge.enc_post(xml), BINDING_HTTP_POST)
        elif kind == 'LogoutRequest':
            r = server.parse_logout_request(forge.enc_soap(xml), BINDING_SOAP)
        else:
            r = server.parse_attribute_query(forge.enc_soap(xml), BINDING_SOAP)
        ok = r is not None and getattr(r, 'message', None) is not None
        return {'accept': bool(ok), 'exc': None if ok else 'None'}
    except Exception as e:
        return {'accept': False, 'exc': type(e).__name__}


def specific_class(sec):
    return 'status' + sec.lower()


def judge(cell, r):
    if cell[0] == 'req':
        ver = cell[3]
        if ver != '2.0' and r['accept']:
            return 'request-with-version-%r-accepted' % ver
        if ver == '2.0' and not r['accept']:
            return 'valid-2.0-request-rejected:%s' % r['exc']
        return None
    if cell[0] == 'reuse':
        _k, clear, top, sec, pay, ver = cell
        if not r['first']:
            return 'reused-handler:genuine-first-response-rejected'
        if r['accept']:
            return 'reused-handler:second-response-with-%s-accepted' % ('version-%r' % ver if ver != '2.0' else 'non-success-status')
        return None
    _k, top, sec, msg, pay, ver = cell[:6]
    if cell[0] == 'respx' and top == 'Success' and ver == '2.0' and pay != 'none' and not r['accept']:
        return 'success-response-with-status-detail-rejected:%s' % r['exc']
    if ver != '2.0':
        return 'response-with-version-%r-accepted' % ver if r['accept'] else None
    if top == 'Success':
        return None
    if r['accept']:
        return 'identity-from-non-success-response'
    if top in (None, 'NOSTATUS', 'near:empty'):      # refused by the structural validation that comes first
        return None
    exc = (r['exc'] or '').lower()
    specifics = set(specific_class(s) for s in SECOND)
    if sec in SECOND:
        if exc != specific_class(sec):
            return 'wrong-error-class-for-%s:%s' % (sec, r['exc'])
    else:
        if exc in specifics:
            return 'specific-error-class-for-generic-status:%s' % r['exc']
        if exc != 'statuserror':
            # no second-level code, or one without a documented class: the generic status error
            return 'generic-status-error-expected:%s' % r['exc']
    return None


def run(ctx):
    TMP[0] = ctx.tmp
    cs = cells(ctx.thorough)
    res = ctx.pmap(evaluate, cs)
    ctx.recheck(evaluate, cs, res, n=40)
    hist = {}
    nontriv = set()
    acc = 0
    for c, r in zip(cs, res):
        k = 'ACCEPT' if r['accept'] else 'REJECT:%s' % r['exc']
        hist[k] = hist.get(k, 0) + 1
        acc += r['accept']
        if c[0] == 'req' or c[1] != 'Success' or c[5] != '2.0':
            nontriv.add(c)
        y = judge(c, r)
        if y:
            if c[0] == 'reuse':
                key = {'kind': y, 'clear_between': c[1], 'top': c[2], 'second': c[3], 'payload': c[4], 'version': c[5]}
            elif c[0] == 'respx':
                key = {'kind': y.split(':')[0], 'top': c[1], 'second': c[2], 'variant': c[3], 'payload': c[4], 'version': c[5]}
            elif c[0] == 'resp':
                key = {'kind': y.split(':')[0], 'top': c[1], 'second': c[2], 'message': c[3], 'payload': c[4], 'version': c[5],
                       'via': c[6] if len(c) > 6 else 'post', 'third': c[7] if len(c) > 7 else None}
            else:
                key = {'kind': y.split(':')[0], 'request': c[1], 'binding': c[2], 'version': c[3], 'by_index': len(c) > 4}
            ctx.violation(key, {'observed': r, 'detail': y})
    if not acc:
        ctx.violation({'kind': 'nothing-accepted'}, {})
    return {
        'level': 'exploration',
        'coverage': {
            'evaluations': len(cs), 'distinct_nontrivial': len(nontriv), 'exhaustive': True, 'accepted': acc,
            'rule': 'complete product: top-level status (Success, Requester, Responder, VersionMismatch, unknown, StatusCode absent, Status absent) x second-level (absent, each of the 21 standard codes, unknown) x StatusMessage x payload (none / signed assertion / signed response+assertion), top-level values also with 7 near-misses of the Success URN (prefix, shorter, suffix, bare word, longer, other case, empty); the status x payload grid also over the SOAP binding; three-level status codes (class decided by the second level); namespace-qualified look-alikes of Version and of the top-level Value next to the real attribute (either order) and five StatusDetail shapes (empty, text child, childless child, nested, a Success StatusCode inside) with the same verdict and error class required; one response handler consuming a genuine response and then a non-Success / non-2.0 one (with and without clear()); Version {2.0,1.0,1.1,2.1,3.0,two,empty,near-2.0 spellings,attribute absent} on responses and on AuthnRequest (Redirect, POST; reply endpoint by URL and by index) / LogoutRequest / AttributeQuery (SOAP); non-trivial = non-Success status or non-2.0 version or a request',
            'samples': [{'cell': list(cs[i]), 'observed': res[i]} for i in (1, len(cs) // 2, len(cs) - 1)],
            'distinct_outcomes': len(hist), 'outcome_histogram': hist,
        },
        'assumptions': ['independent copy of the second-level code -> error class table (by name)',
                        'generic error = the StatusError class itself (the documented base class of the specific ones)', 'xmlsec1 model at the seam'],
    }


def replay(ctx, w):
    TMP[0] = ctx.tmp
    if 'variant' in w:
        c = ('respx', w['top'], w['second'], w['variant'], w['payload'], w['version'])
    elif 'clear_between' in w:
        c = ('reuse', w['clear_between'], w['top'], w['second'], w['payload'], w['version'])
    elif 'request' in w:
        c = ('req', w['request'], w['binding'], w['version']) + (('index',) if w.get('by_index') else ())
    else:
        c = ('resp', w['top'], w['second'], w['message'], w['payload'], w['version'], w.get('via', 'post')) + ((w['third'],) if w.get('third') else ())
    r = evaluate(c)
    return {'violation': bool(judge(c, r)), 'observed': r}
