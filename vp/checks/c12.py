"""C12 - schema element objects survive serialise/parse without loss (deviation-bounded instance enumeration)."""
import itertools
from xml.etree import ElementTree as ET

from vp import schema

FOREIGN = 'urn:vp:foreign'
SPECIAL = '<&"\'>]]>'
NONASCII = 'é€\U0001F600'


def ext_elem(depth):
    from saml2_tophat import ExtensionElement
    kids = [ext_elem(depth - 1)] if depth > 1 else []
    return ExtensionElement('Foo%d' % depth, namespace=FOREIGN, attributes={'a': 'x<&"y', '{%s}b' % FOREIGN: 'z'},
                            children=kids, text='ext-%d' % depth if not kids else None)


def deviations(cls):
    """Catalogue of single deviations for a class: list of (descriptor, mutator(x))."""
    out = []
    dflt = schema._defaults(cls)
    for xmlattr, (name, typ, req) in sorted(cls.c_attributes.items(), key=lambda kv: str(kv[0])):
        if dflt.get(name) is None:
            # an attribute with a schema default cannot be 'absent' as an object state: absent == default (XSD)
            out.append((['attr-absent', name], lambda x, n=name: setattr(x, n, None)))
        out.append((['attr-special', name], lambda x, n=name: setattr(x, n, SPECIAL)))
        out.append((['attr-nonascii', name], lambda x, n=name: setattr(x, n, NONASCII)))
        out.append((['attr-empty', name], lambda x, n=name: setattr(x, n, '')))
        out.append((['attr-mixed-case-word', name], lambda x, n=name: setattr(x, n, 'True')))
        out.append((['ext-attr-ns-clash', xmlattr], lambda x, a=xmlattr: x.extension_attributes.__setitem__(
            '{%s}%s' % (FOREIGN, a.split('}')[-1]), 'foreign-value')))
    names = []
    for tag, (name, spec) in cls.c_children.items():
        if name in names:
            continue
        names.append(name)
        if isinstance(spec, list):
            for n in (0, 2, 3):
                def f(x, nm=name, n=n):
                    v = getattr(x, nm)
                    if v:
                        setattr(x, nm, [schema.base_instance(type(v[0]), 1) for _ in range(n)] if n else [])
                out.append((['child-count', name, n], f))

            def fa(x, nm=name):
                # the very same object in two places of the tree (an instance is a tree of references, nothing
                # forbids sharing a child)
                v = getattr(x, nm)
                if v:
                    one = schema.base_instance(type(v[0]), 1)
                    setattr(x, nm, [one, one])
            out.append((['child-aliased', name], fa))
        else:
            out.append((['child-absent', name], lambda x, nm=name: setattr(x, nm, None)))

        def g(x, nm=name):
            v = getattr(x, nm)
            c = v[0] if isinstance(v, list) and v else v
            if c is not None and not isinstance(c, list):
                c.extension_attributes['{%s}deep' % FOREIGN] = 'd<&'
                c.extension_elements.append(ext_elem(1))
                for xa, (an, _t, _r) in c.c_attributes.items():
                    setattr(c, an, SPECIAL)
                    break
        out.append((['child-deviates', name], g))
    if not cls.c_children:
        for kind, val in (('special', SPECIAL), ('nonascii', NONASCII), ('ws', '  \n '), ('inner-ws', ' a  b ')):
            out.append((['text', kind], lambda x, v=val: setattr(x, 'text', v)))
    out.append((['ext-attr', 'plain'], lambda x: x.extension_attributes.__setitem__('foo', 'bar<&"')))
    out.append((['ext-attr', 'ns'], lambda x: x.extension_attributes.__setitem__('{%s}foo' % FOREIGN, NONASCII)))
    out.append((['ext-elem', 1], lambda x: x.extension_elements.append(ext_elem(1))))
    out.append((['ext-elem', 2], lambda x: x.extension_elements.append(ext_elem(2))))

    def odd_names(x):
        from saml2_tophat import ExtensionElement
        # attribute names that are also parameter / member names of the tree builder, Python keywords
        x.extension_elements.append(ExtensionElement('Bar', namespace=FOREIGN, attributes={
            'attrib': '1', 'tag': '2', 'text': '3', 'tail': '4', 'self': '5', 'class': '6', 'nsmap': '7', 'extra': '8'},
            children=[ExtensionElement('Baz', namespace=FOREIGN, attributes={'attrib': 'deep'}, text='t')]))
    out.append((['ext-elem', 'odd-attribute-names'], odd_names))

    def nonascii_names(x):
        from saml2_tophat import ExtensionElement
        x.extension_elements.append(ExtensionElement('B\u00e4r', namespace=FOREIGN, attributes={'attr\u00e9': 'v', '{%s}\u00fc' % FOREIGN: 'w'}, text='t'))
    out.append((['ext-elem', 'nonascii-names'], nonascii_names))
    out.append((['ext-attr', 'nonascii-name'], lambda x: x.extension_attributes.__setitem__('{%s}n\u00e4me' % FOREIGN, 'x')))
    return out


def child_order_ok(cls, s):
    order = list(cls.c_child_order)
    if not order:
        return True
    tag2name = {tag: name for tag, (name, _spec) in cls.c_children.items()}
    idx = -1
    seen_ext = False
    for c in ET.fromstring(s):
        name = tag2name.get(c.tag)
        if name is None:
            seen_ext = True
            continue
        if seen_ext:
            return False
        if name in order:
            i = order.index(name)
            if i < idx:
                return False
            idx = i
    return True


def roundtrip(cls, x):
    """Returns None or a reason string."""
    import saml2_tophat
    try:
        s1 = x.to_string()
    except Exception as e:
        return 'to_string-raised:%s' % type(e).__name__
    try:
        y = saml2_tophat.create_class_from_xml_string(cls, s1)
    except Exception as e:
        return 'parse-raised:%s' % type(e).__name__
    if y is None:
        return 'parse-returned-None'
    if type(y) is not cls:
        return 'wrong-type'
    a, b = schema.struct(x), schema.struct(y)
    if a != b:
        if a[2] != b[2]:
            return 'attributes-differ'
        if a[3] != b[3]:
            return 'text-differs'
        if a[4] != b[4]:
            return 'children-differ'
        return 'extension-content-differs'
    # the same document handed over as text instead of bytes
    try:
        z = saml2_tophat.create_class_from_xml_string(cls, s1.decode('utf-8'))
    except Exception as e:
        return 'parse-of-text-form-raised:%s' % type(e).__name__
    if z is None or schema.struct(z) != a:
        return 'text-form-parses-differently'
    try:
        s2 = y.to_string()
    except Exception as e:
        return 'second-to_string-raised:%s' % type(e).__name__
    if s2 != s1:
        return 'second-serialisation-differs'
    if not child_order_ok(cls, s1.decode('utf-8') if isinstance(s1, bytes) else s1):
        return 'children-not-in-schema-order'
    return None


def inject_cases(cls, x):
    """String-level: a foreign child injected at every position among the children must land in
    extension_elements and survive another round trip."""
    import saml2_tophat
    out = []
    try:
        s1 = x.to_string()
        root = ET.fromstring(s1)
    except Exception:
        return out
    n = len(list(root))
    for pos in range(n + 1):
        r = ET.fromstring(s1)
        f = ET.Element('{%s}Injected' % FOREIGN, {'k': 'v'})
        f.text = 'inj'
        r.insert(pos, f)
        s = ET.tostring(r, encoding='UTF-8')
        why = None
        try:
            y = saml2_tophat.create_class_from_xml_string(cls, s)
            if y is None:
                why = 'parse-returned-None'
            else:
                found = [e for e in y.extension_elements if e.tag == 'Injected' and e.namespace == FOREIGN]
                if len(found) != 1 or found[0].text != 'inj' or found[0].attributes.get('k') != 'v':
                    why = 'foreign-child-dropped'
                else:
                    known_y = schema.struct(y)[4]
                    if known_y != schema.struct(x)[4]:
                        why = 'known-children-changed-by-foreign-child'
                    else:
                        z = saml2_tophat.create_class_from_xml_string(cls, y.to_string())
                        if z is None or schema.struct(z) != schema.struct(y):
                            why = 'foreign-child-lost-on-second-round-trip'
        except Exception as e:
            why = 'raised:%s' % type(e).__name__
        out.append((['inject-foreign-child', pos], why))
    # other kinds of unknown children, first and last position: a namespaced foreign child whose own child is in no
    # namespace; an unknown element in the class's own namespace; an unqualified child
    for kind, pos in itertools.product(('foreign-with-unqualified-grandchild', 'own-namespace-unknown-tag', 'unqualified'), sorted(set((0, n)))):
        r = ET.fromstring(s1)
        if kind == 'foreign-with-unqualified-grandchild':
            f = ET.Element('{%s}Policy' % FOREIGN, {'k': 'v'})
            g = ET.SubElement(f, 'Note', {'p': 'q'})
            g.text = 'note'
            want = ('Policy', FOREIGN)
        elif kind == 'own-namespace-unknown-tag':
            f = ET.Element('{%s}VpUnknownHint' % cls.c_namespace, {'k': 'v'})
            f.text = 'hint'
            want = ('VpUnknownHint', cls.c_namespace)
        else:
            f = ET.Element('VpBare', {'k': 'v'})
            f.text = 'bare'
            want = ('VpBare', None)
        r.insert(pos, f)
        s = ET.tostring(r, encoding='UTF-8')
        why = None
        try:
            y = saml2_tophat.create_class_from_xml_string(cls, s)
            if y is None:
                why = 'parse-returned-None'
            else:
                found = [e for e in y.extension_elements if e.tag == want[0] and (e.namespace or None) == want[1]]
                if len(found) != 1 or found[0].attributes.get('k') != 'v':
                    why = 'unknown-child-dropped-or-renamed'
                else:
                    if kind == 'foreign-with-unqualified-grandchild':
                        ch = found[0].children
                        if len(ch) != 1 or ch[0].tag != 'Note' or (ch[0].namespace or None) is not None or ch[0].text != 'note':
                            why = 'unknown-grandchild-changed'
                    if why is None:
                        s2 = y.to_string()
                        # (unknown children are re-emitted after the known ones: the root's children compare as a multiset)
                        if canon_root(ET.fromstring(s2)) != canon_root(ET.fromstring(s)):
                            why = 'serialisation-of-parsed-message-not-element-identical'
        except Exception as e:
            why = 'raised:%s' % type(e).__name__
        out.append((['inject-child', kind, pos], why))
    return out


def canon_et(e):
    """Prefix-independent canonical form of an ElementTree element."""
    return (e.tag, tuple(sorted(e.attrib.items())), (e.text or '').strip(), tuple(canon_et(c) for c in e))


def canon_root(e):
    return (e.tag, tuple(sorted(e.attrib.items())), (e.text or '').strip(), tuple(sorted(repr(canon_et(c)) for c in e)))


def nspairs_for(x):
    """Two prefix maps covering every namespace of the instance's tree; the same URI gets different prefixes."""
    uris = []
    for e in x._to_element_tree().iter():
        for name in [e.tag] + list(e.attrib):
            if name.startswith('{'):
                u = name[1:].split('}')[0]
                if u not in uris and u != 'http://www.w3.org/XML/1998/namespace':
                    uris.append(u)
    a = {'p%d' % i: u for i, u in enumerate(uris)}
    b = {'p%d' % i: u for i, u in enumerate(reversed(uris))}
    b['zz'] = 'urn:vp:unused'
    return a, b


def forced_prefixes(cls):
    """The alternative serialiser to_string_force_namespace with two prefix maps in turn: each output must parse back
    to an equal instance (and a plain to_string afterwards is unaffected)."""
    import saml2_tophat
    x = schema.base_instance(cls, 2)
    x.extension_elements.append(ext_elem(1))
    try:
        plain = x.to_string()
        for n, nsp in enumerate(nspairs_for(x)):
            s = x.to_string_force_namespace(nsp)
            try:
                y = saml2_tophat.create_class_from_xml_string(cls, s)
            except Exception as e:
                return 'forced-prefix-output-%d-does-not-parse:%s' % (n, type(e).__name__)
            if y is None or schema.struct(y) != schema.struct(x):
                return 'forced-prefix-output-%d-differs' % n
        if x.to_string() != plain:
            return 'to_string-changed-after-forced-prefixes'
        # to_string with a prefix map whose prefixes look like the serialiser's own automatic ones (ns0, ns1, ...):
        # whatever that call does, documents written afterwards must still be well-formed and equal
        a, _b = nspairs_for(x)
        auto = {'ns%d' % i: u for i, u in enumerate(reversed(list(a.values())))}
        for nsp in (dict(list(auto.items())[:1]), auto):
            try:
                x.to_string(nsp)
            except ValueError:
                pass
            for inst in (x, schema.base_instance(cls, 2)):
                s = inst.to_string()
                try:
                    y = saml2_tophat.create_class_from_xml_string(cls, s)
                except Exception as e:
                    return 'output-after-auto-style-prefix-map-does-not-parse:%s' % type(e).__name__
                if y is None or schema.struct(y) != schema.struct(inst):
                    return 'output-after-auto-style-prefix-map-differs'
    except Exception as e:
        return 'forced-prefix-raised:%s' % type(e).__name__
    return None


def as_extension(cls):
    """The instance carried as extension content of another element (add_extension_element, as the library does for
    EncryptedAssertion / SOAP bodies / ArtifactResponse): converting must not change the instance, converting twice
    gives the same, and the carried element parses back to an equal instance."""
    import sys
    import saml2_tophat
    from saml2_tophat import samlp
    x = schema.base_instance(cls, 1)
    x.extension_elements.append(ext_elem(1))
    x.extension_attributes['{%s}ea' % FOREIGN] = 'v<&'
    try:
        before = x.to_string()
        c = samlp.Extensions()        # declares no children of its own
        c.add_extension_element(x)
        mid = x.to_string()
        c.add_extension_elements([x])
        after = x.to_string()
    except Exception as e:
        return 'conversion-to-extension-raised:%s' % type(e).__name__
    if mid != before or after != before:
        return 'conversion-to-extension-changed-the-instance'
    e1, e2 = c.extension_elements
    if schema.struct(e1) != schema.struct(e2):
        return 'second-conversion-differs-from-first'
    try:
        y = saml2_tophat.create_class_from_xml_string(samlp.Extensions, c.to_string())
        mod = sys.modules[cls.__module__]
        f = getattr(mod, 'ELEMENT_FROM_STRING', {}).get(cls.c_tag)
        if f is None or y is None:
            return None
        z = f(y.extension_elements[0].to_string())
        if z is None or type(z) is not cls:
            return None
        if schema.struct(z) != schema.struct(x):
            return 'carried-element-differs-after-round-trip'
    except Exception as e:
        return 'carried-element-round-trip-raised:%s' % type(e).__name__
    return None


def lookup_maps(cls):
    """Round trip through the module's registered *_from_string function, where one exists."""
    import sys
    mod = sys.modules[cls.__module__]
    efs = getattr(mod, 'ELEMENT_FROM_STRING', {})
    f = efs.get(cls.c_tag)
    if f is None:
        return 'unregistered'
    x = schema.base_instance(cls, 1)
    try:
        y = f(x.to_string())
    except Exception as e:
        return 'from_string-raised:%s' % type(e).__name__
    if y is None:
        return 'from_string-returned-None'
    if type(y) is not cls:
        # same tag registered for another class of the module (element vs type class): not a loss
        return 'other-class'
    if schema.struct(y) != schema.struct(x):
        return 'from_string-differs'
    return None


CFG = {'two': False}


def evaluate(task):
    order, modname, names = task
    classes = {schema.cname(c): c for c in schema.discover()}
    res = []
    for cn in names:
        cls = classes[cn]
        devs = deviations(cls)
        cases = [([], [])] + [([d], [m]) for d, m in devs]
        if CFG['two']:
            for (d1, m1), (d2, m2) in itertools.combinations(devs, 2):
                if d1[0].startswith('attr') and d2[0].startswith('attr') and d1[1] == d2[1]:
                    continue
                cases.append(([d1, d2], [m1, m2]))
        n = 0
        bad = []
        for descs, muts in cases:
            x = schema.base_instance(cls, 2)
            try:
                for m in muts:
                    m(x)
            except Exception:
                continue
            n += 1
            why = roundtrip(cls, x)
            if why:
                bad.append((descs, why))
        x = schema.base_instance(cls, 2)
        for d, why in inject_cases(cls, x):
            n += 1
            if why:
                bad.append(([d], why))
        lm = lookup_maps(cls)
        if lm and lm not in ('unregistered', 'other-class'):
            bad.append(([['lookup-map']], lm))
        ae = as_extension(cls)
        n += 1
        if ae:
            bad.append(([['as-extension']], ae))
        fp = forced_prefixes(cls)
        n += 1
        if fp:
            bad.append(([['forced-prefixes']], fp))
        res.append((cn, n, bad, lm))
    return res


def run(ctx):
    CFG['two'] = ctx.thorough
    classes = schema.discover()
    bymod = {}
    for c in classes:
        bymod.setdefault(c.__module__, []).append(schema.cname(c))
    tasks = []
    for order in ('forward', 'reverse', 'bases-first'):
        for mod, names in sorted(bymod.items()):
            ns = sorted(names)
            if order == 'reverse':
                ns = ns[::-1]
            elif order == 'bases-first':
                byname = {schema.cname(c): c for c in classes}
                ns = sorted(ns, key=lambda n: (len(byname[n].__mro__), n))
            if ctx.thorough and order != 'forward':
                continue
            tasks.append((order, mod, ns))
    res = ctx.pmap(evaluate, tasks, chunksize=1)
    n_cases = 0
    nontriv = set()
    unregistered = 0
    seen_v = set()
    for (order, mod, _ns), out in zip(tasks, res):
        for cn, n, bad, lm in out:
            n_cases += n
            nontriv.add(cn)
            if lm == 'unregistered' and order == 'forward':
                unregistered += 1
            for descs, why in bad:
                k = (cn, repr(descs), why)
                if k in seen_v:
                    continue
                seen_v.add(k)
                ctx.violation({'kind': why.split(':')[0], 'class': cn, 'deviations': descs, 'order': order,
                               'dev_kinds': sorted(set(d[0] for d in descs))}, {'why': why})
    t0 = tasks[len(tasks) // 2]
    return {
        'level': 'exploration',
        'coverage': {
            'evaluations': n_cases, 'distinct_nontrivial': len(nontriv), 'exhaustive': True, 'classes': len(classes),
            'modules': len(bymod), 'classes_without_from_string_registration': unregistered,
            'rule': 'every SamlBase subclass of every schema module (discovered by walking the package) x {base instance with every declared attribute and child set (depth 2), every single deviation%s} from the catalogue (attribute absent/XML-special/non-ASCII/empty, foreign namespaced attribute with the same local name, list child count 0/2/3, single child absent, deviating child, leaf text special/non-ASCII/whitespace, plain and namespaced extension attributes, extension elements nested 1 and 2 deep) + a foreign child injected at every child position at the XML level, and at the first and last position a foreign child with a grandchild in no namespace, an unknown element of the class\'s namespace, an unqualified child + to_string_force_namespace under two prefix maps in turn + the module\'s registered *_from_string + the instance carried as extension content of another element (converted twice, source unchanged, round trip); in %s class orders within one process (order-dependent state); oracle: own structural comparison, second serialisation identical, children in c_child_order. non-trivial counts distinct classes' % (', every pair of deviations' if ctx.thorough else '', 'one' if ctx.thorough else 'three'),
            'samples': [{'order': t0[0], 'module': t0[1], 'first_classes': t0[2][:3]}],
        },
        'assumptions': ['instances are built as objects: no mixed content (the object model has no tail)', "'' versus absent text is not generated (XML cannot distinguish them)"],
    }


def replay(ctx, w):
    classes = {schema.cname(c): c for c in schema.discover()}
    cls = classes[w['class']]
    devs = {repr(d): m for d, m in deviations(cls)}
    x = schema.base_instance(cls, 2)
    if w['deviations'] and w['deviations'][0][0] == 'forced-prefixes':
        fp = forced_prefixes(cls)
        return {'violation': bool(fp), 'why': fp}
    if w['deviations'] and w['deviations'][0][0] in ('inject-foreign-child', 'inject-child'):
        for d, why in inject_cases(cls, x):
            if d == w['deviations'][0]:
                return {'violation': bool(why), 'why': why}
    if w['deviations'] and w['deviations'][0][0] == 'as-extension':
        ae = as_extension(cls)
        return {'violation': bool(ae), 'why': ae}
    if w['deviations'] and w['deviations'][0][0] == 'lookup-map':
        lm = lookup_maps(cls)
        return {'violation': lm not in (None, 'unregistered', 'other-class'), 'why': lm}
    for d in w['deviations']:
        devs[repr(d)](x)
    why = roundtrip(cls, x)
    return {'violation': bool(why), 'why': why}
