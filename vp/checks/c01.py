"""C01 - accepted signed content is exactly what its signature covers.

State graph over tree edits of validly signed responses + the complete signature-wrapping grammar, each state
run through the real Saml2Client.parse_authn_request_response; invariant = strict signature + identity origin."""
import itertools

from vp import env, world, forge, oracle, edits, xmlsec
from vp.xmlsec import DS, elems, children

SAML = forge.SAML
SAMLP = forge.SAMLP
TMP = [None]
_sp = {}

CFGS = [c for c in itertools.product([False, True], repeat=3) if any(c)]   # (wr, wa, wo)


def sp_for(cfg):
    """cfg = (wr, wa, wo[, 'two-certs']): with the 4th element the IdP's metadata lists two signing certificates and the
    one it really signs with comes second (key roll-over)."""
    if cfg not in _sp:
        keys = (('idpA', 'signing'),) if len(cfg) < 4 else (('idpA2', 'signing'), ('idpA', 'signing'))
        _sp[cfg] = world.make_sp(TMP[0], [world.idp_md(keys=keys), world.idp_md(world.IDP_B, keys=(('idpB', 'signing'),))],
                                 want_response_signed=cfg[0], want_assertions_signed=cfg[1],
                                 want_assertions_or_response_signed=cfg[2])
    return _sp[cfg]


EXT = '<f:Ext xmlns:f="urn:vp:foreign">e</f:Ext>'
ADV = '<saml:AssertionIDRef>ref-1</saml:AssertionIDRef>'


def start_doc(kind, alg='sha256'):
    sr = 'idpA' if 'R' in kind else None
    sa = 'idpA' if 'A' in kind else None
    return forge.build(env.BASE, resp=dict(extensions=EXT), assertions=[dict(advice=ADV)], sign_resp=sr, sign_ass=sa, alg=alg)


def cfgs_for(kind):
    sr, sa = 'R' in kind, 'A' in kind
    return [c for c in CFGS if (not c[0] or sr) and (not c[1] or sa) and (not c[2] or sr or sa)]


# ----------------------------------------------------------------- oracle

def judge(xml, obs, cfg, encrypted=False):
    """None if fine, else a reason string (violation).  Only called for accepted documents."""
    try:
        doc0 = xmlsec.parse_doc(xml)
    except xmlsec.Fail:
        return 'accepted-unparseable'
    root0 = doc0.documentElement
    resp_has_sig = bool(children(root0, DS, 'Signature'))
    resp_strict = oracle.strict_signature(doc0, root0, ['idpA'])[0] if resp_has_sig else False
    doc = doc0
    cands = oracle.direct_assertions(root0)
    if encrypted or any(e.localName == 'EncryptedAssertion' for e in elems(root0)):
        dx, _full = oracle.decrypt_all(xml, ['spXenc1', 'spXenc2'])
        doc = xmlsec.parse_doc(dx)
        cands = oracle.direct_assertions(doc.documentElement) + oracle.unwrap_encrypted_assertions(doc)
    ident = obs['identity']
    adopted = [a for a in cands if a.getAttribute('ID') == ident.get('assertion_id')]
    ass_info = []
    for a in cands:
        has = bool(children(a, DS, 'Signature'))
        ass_info.append((a, has, oracle.strict_signature(doc, a, ['idpA'])[0] if has else False))
    wr, wa, wo = cfg[:3]
    if resp_has_sig and not resp_strict:
        return 'response-signature-present-not-strictly-valid'
    if wr and not resp_strict:
        return 'response-signature-required-not-strictly-valid'
    ad_info = [t for t in ass_info if t[0] in adopted]
    for a, has, ok in ad_info:
        if has and not ok:
            return 'adopted-assertion-signature-present-not-strictly-valid'
    if wa and not (ad_info and all(ok for _a, _h, ok in ad_info)):
        return 'assertion-signature-required-not-strictly-valid'
    if wo and not (resp_strict or (ad_info and all(ok for _a, _h, ok in ad_info))):
        return 'either-signature-required-none-strictly-valid'
    # identity origin: what the application reads must be what a strictly signed element says
    for a, has, ok in ass_info:
        if (resp_strict or ok) and oracle.identity_matches(ident, oracle.read_assertion(a)):
            return None
    return 'identity-not-from-strictly-signed-content'


def evaluate(task):
    """task = (label, xml, encrypted, cfg-list[, prime_xml]) -> list of per-cfg outcomes.  With prime_xml the same SP
    first accepts that genuine document (non-initial state: same IDs already seen and verified)."""
    label, xml, encrypted, cfgs = task[:4]
    prime = task[4] if len(task) > 4 else None
    out = []
    for cfg in cfgs:
        env.Clock.set(env.BASE)
        env.Seam.reset()
        if prime is not None:
            _sp.pop(cfg, None)
            first = oracle.accept_response(sp_for(cfg), prime)
            if not first['accept']:
                out.append({'cfg': list(cfg), 'accept': False, 'exc': 'PRIMING-REJECTED', 'why': None, 'subject': None})
                continue
        over = {'binding': world.BINDING_HTTP_REDIRECT} if (isinstance(label, str) and label.endswith('@redirect')) else {}
        obs = oracle.accept_response(sp_for(cfg), xml, **over)
        why = None
        if obs['accept']:
            try:
                why = judge(xml, obs, cfg, encrypted)
            except Exception as e:      # oracle crash is a harness matter
                why = 'ORACLE-ERROR %r' % e
        out.append({'cfg': list(cfg), 'accept': obs['accept'], 'exc': obs.get('exc'), 'why': why,
                    'subject': obs['identity']['name_id'][0] if obs['accept'] and obs['identity']['name_id'] else None})
    return out


# -------------------------------------------------------- wrap grammar

O_SLOTS_A = ['absent', 'T/Advice', 'T/Issuer', 'T/SCD', 'T/AttrValue', 'T/Sig/Object', 'T/Sig/KeyInfo', 'prev', 'next',
             'R/Extensions', 'R/Foreign']
S_SLOTS_A = [None, 'T-first', 'T-after-issuer', 'T-last', 'T/Issuer', 'T/Advice', 'before-T', 'O']
O_SLOTS_R = ['absent', 'T/Extensions', 'T/Issuer', 'T/StatusMessage', 'T/Assertion/Advice', 'T/Sig/Object', 'T-last']
S_SLOTS_R = [None, 'T-first', 'T-after-issuer', 'T-last', 'T/Issuer', 'T/Extensions', 'O']
O_SLOTS_Q = ['absent', 'T/Extensions', 'T/Issuer', 'T/Sig/Object', 'T-last']       # target 'Request' (C10)


def kids(e, name=None):
    return [c for c in e.childNodes if c.nodeType == 1 and (name is None or c.localName == name)]


def grammar(xml, target, only=None, tids=('fresh', 'same')):
    """Yield (coords, document) for every member of the wrapping grammar around one validly signed element O.
    target: 'Assertion' (O is the assertion of a response), 'Response' or 'Request' (O is the document element).
    only=(tid, oslot) restricts the enumeration to one block."""
    O_SLOTS, S_SLOTS = (O_SLOTS_A, S_SLOTS_A) if target == 'Assertion' else (O_SLOTS_R, S_SLOTS_R)
    if target == 'Request':
        O_SLOTS = O_SLOTS_Q
    for tid in tids:
        for oslot in O_SLOTS:
            if only is not None and (tid, oslot) != tuple(only):
                continue
            for okeeps in (False, True):
                for s1, s2 in itertools.product(S_SLOTS, S_SLOTS):
                    if s1 is None and s2 is not None:
                        continue
                    if (tid.startswith('near') or tid.startswith('hyphen') or tid == 'empty') and s2 is not None:
                        continue
                    for u1, u2 in itertools.product(('#O', '#T'), repeat=2):
                        if s1 is None and (u1, u2) != ('#O', '#O'):
                            continue
                        if s2 is None and u2 != '#O':
                            continue
                        d = xmlsec.parse_doc(xml)
                        R = d.documentElement
                        O = kids(R, 'Assertion')[0] if target == 'Assertion' else R
                        oid = O.getAttribute('ID')
                        osig = kids(O, 'Signature')[0]
                        T = O.cloneNode(True)
                        for s in kids(T, 'Signature'):
                            T.removeChild(s)
                        # near-*: an identifier that differs from the signed one by white space only
                        T.setAttribute('ID', {'fresh': 'evil-id', 'same': oid, 'near-trailing': oid + ' ', 'near-leading': ' ' + oid,
                                              'near-newline': oid + '\n', 'hyphen-leading': '-evil-id', 'hyphen-option': '--node-id',
                                              'empty': ''}[tid])       # (an empty ID: "no node id" for whoever tests truthiness)
                        for e in T.getElementsByTagNameNS(SAML, 'NameID'):
                            e.firstChild.data = 'mallory'
                        if target == 'Request':
                            T.setAttribute('Consent', 'urn:vp:evil')
                            if T.hasAttribute('AssertionConsumerServiceURL'):
                                T.setAttribute('AssertionConsumerServiceURL', 'https://evil.example/acs')
                        if target == 'Assertion':
                            R.replaceChild(T, O)
                            TA = T
                        else:
                            # the twin becomes the document element; O is detached (and possibly re-placed below)
                            d.removeChild(R)
                            d.appendChild(T)
                            TA = (kids(T, 'Assertion') or [None])[0]
                        if not okeeps:
                            O.removeChild(osig)

                        def mk(ns, q):
                            e = d.createElementNS(ns, q)
                            return e
                        ok = True
                        if oslot == 'absent':
                            pass
                        elif oslot == 'T/Advice':
                            adv = kids(T, 'Advice')
                            if adv:
                                adv[0].appendChild(O)
                            else:
                                a = mk(SAML, 'saml:Advice')
                                a.appendChild(O)
                                T.insertBefore(a, kids(T, 'AuthnStatement')[0])
                        elif oslot == 'T/Issuer':
                            kids(T, 'Issuer')[0].appendChild(O)
                        elif oslot == 'T/SCD':
                            T.getElementsByTagNameNS(SAML, 'SubjectConfirmationData')[0].appendChild(O)
                        elif oslot == 'T/AttrValue':
                            T.getElementsByTagNameNS(SAML, 'AttributeValue')[0].appendChild(O)
                        elif oslot == 'prev':
                            R.insertBefore(O, T)
                        elif oslot == 'next':
                            R.appendChild(O)
                        elif oslot == 'R/Extensions':
                            kids(R, 'Extensions')[0].appendChild(O)
                        elif oslot == 'R/Foreign':
                            w = mk('urn:vp:foreign', 'f:W')
                            w.setAttribute('xmlns:f', 'urn:vp:foreign')
                            w.appendChild(O)
                            R.appendChild(w)
                        elif oslot == 'T/Extensions':
                            kids(T, 'Extensions')[0].appendChild(O)
                        elif oslot == 'T/StatusMessage':
                            st = kids(T, 'Status')[0]
                            sm = mk(SAMLP, 'samlp:StatusMessage')
                            sm.appendChild(O)
                            st.appendChild(sm)
                        elif oslot == 'T/Assertion/Advice':
                            kids(TA, 'Advice')[0].appendChild(O)
                        elif oslot == 'T-last':
                            T.appendChild(O)
                        sigs = []
                        for sl, u in ((s1, u1), (s2, u2)):
                            if sl is None:
                                continue
                            S = osig.cloneNode(True)
                            if u == '#T':
                                S.getElementsByTagNameNS(DS, 'Reference')[0].setAttribute('URI', '#' + T.getAttribute('ID'))
                            if sl == 'T-first':
                                T.insertBefore(S, T.firstChild)
                            elif sl == 'T-after-issuer':
                                T.insertBefore(S, kids(T, 'Issuer')[0].nextSibling)
                            elif sl == 'T-last':
                                T.appendChild(S)
                            elif sl == 'T/Issuer':
                                kids(T, 'Issuer')[0].appendChild(S)
                            elif sl == 'T/Advice':
                                adv = kids(TA if target != 'Assertion' else T, 'Advice')
                                if not adv:
                                    ok = False
                                    break
                                adv[0].appendChild(S)
                            elif sl == 'T/Extensions':
                                kids(T, 'Extensions')[0].appendChild(S)
                            elif sl == 'before-T':
                                R.insertBefore(S, T)
                            elif sl == 'O':
                                if oslot == 'absent':
                                    ok = False
                                    break
                                O.insertBefore(S, kids(O, 'Issuer')[0].nextSibling)
                            sigs.append(S)
                        if not ok:
                            continue
                        if oslot in ('T/Sig/Object', 'T/Sig/KeyInfo'):
                            if not sigs:
                                continue
                            if oslot == 'T/Sig/Object':
                                ob = mk(DS, 'ds:Object')
                                ob.appendChild(O)
                                sigs[0].appendChild(ob)
                            else:
                                ki = mk(DS, 'ds:KeyInfo')
                                ki.appendChild(O)
                                sigs[0].appendChild(ki)
                        coords = dict(kind='grammar', target=target, tid=tid, oslot=oslot, okeeps=okeeps,
                                      s1=s1, u1=u1, s2=s2, u2=u2)
                        try:
                            yield coords, d.documentElement.toxml()
                        except Exception:
                            continue


# ------------------------------------------------- multi-assertion layer

MULTI = ('G', 'F', 'U', 'EF', 'EG', 'BF')


def multi_doc(seq):
    """Response (unsigned) carrying a sequence of: G genuine signed assertion, F forged unsigned assertion, U assertion
    encrypted for somebody else, EF forged assertion encrypted for this SP, EG genuine assertion encrypted for this SP,
    BF forged assertion encrypted for this SP as a bare xenc:EncryptedData child of the Response (no EncryptedAssertion)."""
    now = env.BASE
    parts = []
    ids = {}
    for i, k in enumerate(seq):
        if k in ('G', 'EG'):
            a = forge.assertion(now, aid='G%d' % i, sign=True)
        else:
            a = forge.assertion(now, aid='F%d' % i, subject='FORGED-SUBJECT', attrs=(('givenName', ('FORGED-MARK',)), ('role', ('FORGED-ROLE',))))
        parts.append(a)
    x = forge.response(now, parts)
    for i, k in enumerate(seq):
        if k in ('G', 'EG'):
            x = forge.sign(x, 'G%d' % i, 'idpA')
    d = xmlsec.parse_doc(x)
    root = d.documentElement
    kids_ = [c for c in elems(root) if c.localName == 'Assertion']
    for k, a in zip(seq, kids_):
        if k in ('U', 'EF', 'EG'):
            wrap = d.createElementNS(SAML, 'saml:EncryptedAssertion')
            root.replaceChild(wrap, a)
            wrap.appendChild(a)
            xmlsec.encrypt_node(d, a, forge.enc_template(), world.pub('spY' if k == 'U' else 'spXenc1'))
        elif k == 'BF':
            xmlsec.encrypt_node(d, a, forge.enc_template(), world.pub('spXenc1'))
    return root.toxml()


def evaluate_multi(task):
    seq, cfgs = task
    xml = multi_doc(seq)
    out = []
    for cfg in cfgs:
        env.Clock.set(env.BASE)
        obs = oracle.accept_response(sp_for(cfg), xml)
        why = None
        if obs['accept'] and 'FORGED' in repr(obs['identity']):
            why = 'identity-contains-content-of-an-unsigned-assertion'
        out.append({'cfg': list(cfg), 'accept': obs['accept'], 'exc': obs.get('exc'), 'why': why,
                    'subject': obs['identity']['name_id'][0] if obs['accept'] and obs['identity']['name_id'] else None})
    return out


def late_signature_doc(sig, advice):
    """Unsigned response whose only assertion is encrypted for this SP; the (forged, never signed) assertion carries, where
    its Signature would be, a bare xenc:EncryptedData whose plain text is a ds:Signature naming the assertion
    (sig: junk values / a genuine assertion's signature copied), and in its Advice an EncryptedAssertion (garbage, or
    encrypted for somebody else) that makes the receiver decrypt a second time."""
    now = env.BASE
    if sig == 'junk':
        sg = forge.sig_template('FL1').replace('<ds:DigestValue/>', '<ds:DigestValue>AAAAAAAAAAAAAAAAAAAAAAAAAAA=</ds:DigestValue>').replace(
            '<ds:SignatureValue/>', '<ds:SignatureValue>%s</ds:SignatureValue>' % ('QUJD' * 86))
    else:
        g = xmlsec.parse_doc(forge.sign(forge.response(now, [forge.assertion(now, aid='FL1', sign=True)]), 'FL1', 'idpA'))
        sg = [e for e in xmlsec.dfs(g.documentElement) if e.localName == 'Signature'][0].toxml()
    adv = {'garbage': '<saml:EncryptedAssertion>%s</saml:EncryptedAssertion>' % forge.enc_template().replace('<xenc:CipherValue/>', '<xenc:CipherValue>AAAA</xenc:CipherValue>'),
           'for-somebody-else': '<saml:EncryptedAssertion><saml:Assertion xmlns:saml="%s" ID="ADVX" Version="2.0" IssueInstant="%s"><saml:Issuer>x</saml:Issuer></saml:Assertion></saml:EncryptedAssertion>' % (SAML, forge.ts(now)),
           'none': ''}[advice]
    a = forge.assertion(now, aid='FL1', subject='FORGED-SUBJECT', attrs=(('givenName', ('FORGED-MARK',)),), advice=adv, extra_first='<vp:SIGSLOT xmlns:vp="urn:vp:slot"/>')
    d = xmlsec.parse_doc(forge.response(now, [a]))
    root = d.documentElement
    slot = [e for e in xmlsec.dfs(root) if e.localName == 'SIGSLOT'][0]
    sgn = d.importNode(xmlsec.parse_doc(sg).documentElement, True)
    slot.parentNode.replaceChild(sgn, slot)
    xmlsec.encrypt_node(d, sgn, forge.enc_template(), world.pub('spXenc1'))
    if advice == 'for-somebody-else':
        inner = [e for e in xmlsec.dfs(root) if e.localName == 'Assertion' and e.getAttribute('ID') == 'ADVX'][0]
        xmlsec.encrypt_node(d, inner, forge.enc_template(), world.pub('spY'))
    ass = [e for e in elems(root) if e.localName == 'Assertion'][0]
    wrap = d.createElementNS(SAML, 'saml:EncryptedAssertion')
    root.replaceChild(wrap, ass)
    wrap.appendChild(ass)
    xmlsec.encrypt_node(d, ass, forge.enc_template(), world.pub('spXenc1'))
    return root.toxml()


def duplicate_id_doc(order):
    """Unsigned response with two EncryptedAssertions for this SP: a genuine signed assertion and a forged one that
    reuses its ID and carries a copy of its Signature (only one EncryptedData is opened per decryption round, so the
    second becomes readable in a later round than the first)."""
    now = env.BASE
    g = forge.sign(forge.response(now, [forge.assertion(now, aid='DUP1', sign=True)]), 'DUP1', 'idpA')
    gd = xmlsec.parse_doc(g)
    ga = [e for e in elems(gd.documentElement) if e.localName == 'Assertion'][0]
    f = ga.cloneNode(True)
    for e in f.getElementsByTagNameNS(SAML, 'NameID'):
        e.firstChild.data = 'FORGED-SUBJECT'
    for e in f.getElementsByTagNameNS(SAML, 'AttributeValue'):
        e.firstChild.data = 'FORGED-MARK'
    root = gd.documentElement
    if order == 'genuine-first':
        root.appendChild(f)
    else:
        root.insertBefore(f, ga)
    for a in [e for e in elems(root) if e.localName == 'Assertion']:
        wrap = gd.createElementNS(SAML, 'saml:EncryptedAssertion')
        root.replaceChild(wrap, a)
        wrap.appendChild(a)
        xmlsec.encrypt_node(gd, a, forge.enc_template(), world.pub('spXenc1'))
    return root.toxml()


def evaluate_late(task):
    sig, advice, cfgs = task
    xml = duplicate_id_doc(advice) if sig == 'duplicate-id' else late_signature_doc(sig, advice)
    out = []
    for cfg in cfgs:
        env.Clock.set(env.BASE)
        obs = oracle.accept_response(sp_for(cfg), xml)
        why = None
        if obs['accept'] and 'FORGED' in repr(obs['identity']):
            why = 'identity-contains-content-of-an-unsigned-assertion'
        out.append({'cfg': list(cfg), 'accept': obs['accept'], 'exc': obs.get('exc'), 'why': why,
                    'subject': obs['identity']['name_id'][0] if obs['accept'] and obs['identity']['name_id'] else None})
    return out


def evaluate_any(t):
    if t[0] == 'late':
        return evaluate_late(t[1:])
    if t[0] == 'multi':
        return evaluate_multi(t[1:])
    return evaluate(t)


# ---------------------------------------------------------------- run

def build_tasks(ctx):
    tasks = []   # (witness-coords, task)
    seen = set()

    def add(coords, xml, enc, cfgs, prime=None):
        if xml is None:
            return
        x = xml
        if enc:
            try:
                x = forge.encrypt_assertions(xml, 'spXenc1')
            except Exception:
                return
        k = (xml, enc, prime is not None, coords.get('md'))
        if k in seen:
            return
        seen.add(k)
        if prime is not None:
            coords = dict(coords, primed=True)
            tasks.append((coords, (coords.get('kind'), x, enc, cfgs, prime)))
        else:
            tasks.append((coords, (coords.get('kind'), x, enc, cfgs)))

    algs = list(forge.SIG_ALGS) if ctx.thorough else ['sha256']
    starts = {}
    for kind in ('A', 'R', 'RA'):
        for alg in algs:
            starts[(kind, alg)] = start_doc(kind, alg)
    # 0. the untouched starts (acceptance baseline) and control: each must be accepted
    for (kind, alg), xml in starts.items():
        add(dict(kind='start', start=kind, alg=alg, enc=False), xml, False, cfgs_for(kind))
    add(dict(kind='start', start='A', alg='sha256', enc=True), starts[('A', 'sha256')], True, cfgs_for('A'))
    # 0b. the binding a response arrives over changes nothing: documents addressed to the SP's Redirect endpoint, signed as
    #     the starts are (control) and with every signature absent, handed over with the HTTP-Redirect binding
    def redirect_doc(kind):
        sr = 'idpA' if 'R' in kind else None
        sa = 'idpA' if 'A' in kind else None
        return forge.build(env.BASE, resp=dict(extensions=EXT, dest=world.ACS_REDIRECT),
                           assertions=[dict(advice=ADV, confirmations=[forge.confirmation(env.BASE, recipient=world.ACS_REDIRECT)])],
                           sign_resp=sr, sign_ass=sa)
    for kind in ('A', 'R', 'RA'):
        add(dict(kind='start@redirect', start=kind, alg='sha256', enc=False), redirect_doc(kind), False, cfgs_for(kind))
    add(dict(kind='unsigned@redirect', start='none', alg='sha256', enc=False), redirect_doc(''), False, list(CFGS))
    add(dict(kind='unsigned@redirect', start='none', alg='sha256', enc=True), redirect_doc(''), True, list(CFGS))
    # 1. wrap grammar
    for target, kind in (('Assertion', 'A'), ('Assertion', 'RA'), ('Response', 'R'), ('Response', 'RA')):
        if target == 'Response' and kind == 'RA' and not ctx.thorough:
            continue
        if target == 'Assertion' and kind == 'RA' and not ctx.thorough:
            continue
        cf = [c for c in CFGS] if ctx.thorough else ([c for c in CFGS if c in ((False, True, False), (False, False, True))] if target == 'Assertion' else [c for c in CFGS if c in ((True, False, False), (False, False, True))])
        near = ('near-trailing', 'near-leading', 'near-newline', 'hyphen-leading', 'hyphen-option', 'empty') if kind in ('A', 'R') else ()
        for coords, xml in grammar(starts[(kind, 'sha256')], target, tids=('fresh', 'same') + near):
            coords['start'] = kind
            add(coords, xml, False, cf)
            # key roll-over: two signing certificates in the metadata, the one really used listed second
            if kind in ('A', 'R') and coords['s2'] is None and not coords['tid'].startswith('near'):
                add(dict(coords, md='two-certs'), xml, False, [cf[0] + ('two-certs',)])
            # non-initial state: the SP has just accepted the genuine document these shapes are derived from
            if ctx.thorough or (coords['s2'] is None and coords['tid'] == 'fresh'):
                add(coords, xml, False, cf[:1], prime=starts[(kind, 'sha256')])
    if ctx.thorough:
        for coords, xml in grammar(starts[('A', 'sha256')], 'Assertion', tids=('fresh', 'same', 'empty')):
            coords['start'] = 'A'
            coords['enc'] = True
            add(coords, xml, True, [(False, True, False), (False, False, True)])
    # 2. depth-1 edits from every start (+ encrypted assertion-signed start)
    d1 = {}
    for (kind, alg), xml in starts.items():
        if alg != 'sha256' and not ctx.thorough:
            continue
        ops = edits.depth1(xml, full=ctx.thorough or True)
        d1[(kind, alg)] = ops
        for o in ops:
            add(dict(kind='edit', start=kind, alg=alg, enc=False, ops=o), edits.apply_all(xml, o), False, cfgs_for(kind))
            if o[0][0] in ('text', 'attr') and alg == 'sha256':
                add(dict(kind='edit', start=kind, alg=alg, enc=False, ops=o), edits.apply_all(xml, o), False, cfgs_for(kind)[:1], prime=xml)
    for o in d1[('A', 'sha256')]:
        add(dict(kind='edit', start='A', alg='sha256', enc=True, ops=o), edits.apply_all(starts[('A', 'sha256')], o), True, cfgs_for('A'))
    # 3. depth-2 XSW family: structural op on Assertion/Response/Signature, then a follow-up
    for kind in ('A', 'R', 'RA'):
        xml = starts[(kind, 'sha256')]
        doc = xmlsec.parse_doc(xml)
        ns, s = edits.sites(doc)
        xs = s['assertion'] + (s['sig'] if ctx.thorough else [])
        for o in d1[(kind, 'sha256')]:
            op = o[0]
            if op[0] not in ('move', 'copy', 'wrap', 'movebefore') or op[1] not in xs:
                continue
            if op[0] in ('move', 'copy') and not ctx.thorough:
                # quick: targets limited to slots that exist as extension points
                y = ns[op[2]]
                if y.localName not in ('Response', 'Assertion', 'Extensions', 'Advice', 'Issuer', 'SubjectConfirmationData',
                                       'Object', 'AttributeValue', 'Ext', 'Signature', 'KeyInfo', 'Status'):
                    continue
            x1 = edits.apply_all(xml, o)
            if x1 is None:
                continue
            for f in edits.followups(x1):
                add(dict(kind='edit', start=kind, alg='sha256', enc=False, ops=[op, f]), edits.apply_all(x1, [f]), False, cfgs_for(kind))
    return tasks


def run(ctx):
    TMP[0] = ctx.tmp
    tasks = build_tasks(ctx)
    mcfgs = [(False, True, False), (False, False, True), (False, True, True)]
    for n_ in (1, 2, 3):
        for seq in itertools.product(MULTI, repeat=n_):
            tasks.append((dict(kind='multi', seq=list(seq), start='A', enc=False), ('multi', seq, mcfgs)))
    for sig_, adv_ in itertools.product(('junk', 'copied'), ('garbage', 'for-somebody-else', 'none')):
        tasks.append((dict(kind='late-signature', sig=sig_, advice=adv_, start='A', enc=True), ('late', sig_, adv_, mcfgs)))
    for order_ in ('genuine-first', 'forged-first'):
        tasks.append((dict(kind='late-signature', sig='duplicate-id', advice=order_, start='A', enc=True), ('late', 'duplicate-id', order_, mcfgs)))
    res = ctx.pmap(evaluate_any, [t for _c, t in tasks])
    ctx.recheck(evaluate_any, [t for _c, t in tasks], res, n=32)
    n_eval = 0
    accepted = 0
    hist = {}
    starts_ok = True
    layers = {}
    for (coords, task), outs in zip(tasks, res):
        layers[coords['kind']] = layers.get(coords['kind'], 0) + 1
        for o in outs:
            n_eval += 1
            k = 'ACCEPT' if o['accept'] else 'REJECT:%s' % o['exc']
            hist[k] = hist.get(k, 0) + 1
            if o['accept']:
                accepted += 1
            if o['exc'] == 'PRIMING-REJECTED':
                starts_ok = False
            if coords['kind'] == 'start':
                if not o['accept']:
                    starts_ok = False
                    ctx.note('start %r not accepted under %r: %s' % (coords, o['cfg'], o['exc']))
            if o['why']:
                if o['why'].startswith('ORACLE-ERROR'):
                    from vp.runner import HarnessError
                    raise HarnessError('%s on %r' % (o['why'], coords))
                key = dict(coords)
                key['cfg'] = o['cfg']
                key['why'] = o['why']
                ctx.violation(key, {'subject': o['subject'], 'document': str(task[1])[:6000]})
    vac = not starts_ok
    if vac:
        ctx.note('VACUOUS: a start document is no longer accepted; only-if property holds vacuously for it')
        import sys
        print('WARNING C01: baseline start document(s) not accepted - exploration partly vacuous', file=sys.stderr)
    samples = [{'witness': tasks[i][0], 'outcomes': res[i]} for i in (0, len(tasks) // 4, len(tasks) // 2, len(tasks) - 1)]
    return {
        'level': 'model_checking',
        'coverage': {
            'states': len(tasks), 'transitions': n_eval, 'traces_validated_against_impl': n_eval,
            'samples': samples, 'exhaustive': True, 'accepted': accepted, 'vacuous': vac,
            'layers': layers, 'distinct_outcomes': len(hist), 'outcome_histogram': hist,
            'rule': 'states = distinct documents reachable from validly signed starts {assertion-signed, response-signed, both}%s by (1) the complete wrapping grammar twin (fresh ID, same ID, IDs differing from the signed one by white space only, IDs that look like command-line options) x original-slot x keeps-signature x two signature-copy slots x reference target, (2) every depth-1 tree edit (text/attr/delete/move/copy/wrap/dupsig/setid at every site), (3) depth-2 structural-then-follow-up family, (4) every sequence of <= 3 assertions drawn from {genuine signed, forged unsigned, encrypted for somebody else, forged encrypted for this SP, genuine encrypted for this SP} in an unsigned response; plain and encrypted (assertion-signed); transitions = (state, SP configuration) acceptance runs of the real parse_authn_request_response, each judged by the strict verifier + identity-origin oracle' % (' x all five RSA-SHA algorithms' if ctx.thorough else ''),
        },
        'assumptions': ['xmlsec1 environment model (first Signature in the subtree of --node-id is verified; --id-attr registers IDs by element name); see DESIGN 4',
                        'edit depth bounded at 2 (+ grammar shapes); alphabets as listed'],
    }


def replay(ctx, w):
    TMP[0] = ctx.tmp
    if w['kind'] == 'multi':
        out = evaluate_multi((tuple(w['seq']), [tuple(w['cfg'])]))[0]
        return {'violation': bool(out['why']), 'observed': out}
    if w['kind'] == 'late-signature':
        out = evaluate_late((w['sig'], w['advice'], [tuple(w['cfg'])]))[0]
        return {'violation': bool(out['why']), 'observed': out}
    kind = w.get('start')
    xml = start_doc(kind, w.get('alg', 'sha256'))
    if w['kind'] == 'grammar':
        doc = None
        for coords, x in grammar(xml, w['target'], tids=(w['tid'],)):
            if all(coords[k] == w[k] for k in ('tid', 'oslot', 'okeeps', 's1', 'u1', 's2', 'u2')):
                doc = x
                break
    elif w['kind'] == 'edit':
        doc = edits.apply_all(xml, w['ops'])
    else:
        doc = xml
    enc = bool(w.get('enc'))
    if enc:
        doc = forge.encrypt_assertions(doc, 'spXenc1')
    t = (w['kind'], doc, enc, [tuple(w['cfg'])])
    if w.get('primed'):
        t = t + (xml,)
    out = evaluate(t)[0]
    return {'violation': bool(out['why']), 'observed': out}
