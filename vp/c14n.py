"""Canonical XML over xml.dom.minidom: Exclusive C14N 1.0 and inclusive C14N 1.0, with/without comments.

Part of the xmlsec1 environment model.  Prefix-preserving (minidom keeps tagName / attribute names verbatim).
"""
from xml.dom import Node

XMLNS = 'http://www.w3.org/XML/1998/namespace'


def esc_text(s):
    return s.replace('&', '&amp;').replace('<', '&lt;').replace('>', '&gt;').replace('\r', '&#xD;')


def esc_attr(s):
    return (s.replace('&', '&amp;').replace('<', '&lt;').replace('"', '&quot;')
            .replace('\t', '&#x9;').replace('\n', '&#xA;').replace('\r', '&#xD;'))


def ns_in_scope(el):
    """prefix -> uri map in scope at element `el` (its own declarations included)."""
    chain = []
    n = el
    while n is not None and n.nodeType == Node.ELEMENT_NODE:
        chain.append(n)
        n = n.parentNode
    scope = {}
    for e in reversed(chain):
        if e.attributes is None:
            continue
        for i in range(e.attributes.length):
            a = e.attributes.item(i)
            if a.name == 'xmlns':
                scope[''] = a.value
            elif a.name.startswith('xmlns:'):
                scope[a.name[6:]] = a.value
    return scope


def _split(qname):
    if ':' in qname:
        return qname.split(':', 1)
    return '', qname


def canonicalize(el, exclude=None, exclusive=True, with_comments=False, inclusive_prefixes=()):
    """Canonical form of the subtree rooted at element `el`, omitting the subtree `exclude` (if any)."""
    out = []
    parent = el.parentNode
    outer = ns_in_scope(parent) if parent is not None and parent.nodeType == Node.ELEMENT_NODE else {}

    def walk(e, rendered, scope, apex):
        if e is exclude:
            return
        scope = dict(scope)
        attrs = []
        own_decl = {}
        for i in range(e.attributes.length):
            a = e.attributes.item(i)
            if a.name == 'xmlns':
                scope[''] = a.value
                own_decl[''] = a.value
            elif a.name.startswith('xmlns:'):
                scope[a.name[6:]] = a.value
                own_decl[a.name[6:]] = a.value
            else:
                attrs.append(a)
        eprefix, _ = _split(e.tagName)
        rendered = dict(rendered)
        nsout = []
        if exclusive:
            used = {eprefix}
            for a in attrs:
                p, _l = _split(a.name)
                if p:
                    used.add(p)
            for p in inclusive_prefixes:
                if p == '#default':
                    p = ''
                if p in scope:
                    used.add(p)
            cands = sorted(used)
        else:
            cands = sorted(scope.keys()) if apex else sorted(set(own_decl.keys()) | {eprefix})
            if not apex:
                # inclusive: render declarations in scope that differ from what is rendered
                cands = sorted(scope.keys())
        for p in cands:
            if p == 'xml':
                continue
            uri = scope.get(p)
            if uri is None:
                if p == '':
                    uri = ''
                else:
                    raise ValueError('unbound prefix %r' % p)
            if rendered.get(p, '') != uri:
                nsout.append((p, uri))
                rendered[p] = uri
        out.append('<' + e.tagName)
        for p, uri in nsout:
            out.append(' xmlns%s="%s"' % ((':' + p) if p else '', esc_attr(uri)))
        xml_inherit = []
        if not exclusive and apex:
            # inclusive c14n: xml:* attributes of ancestors are inherited by the apex
            seen = {a.name for a in attrs}
            n = e.parentNode
            while n is not None and n.nodeType == Node.ELEMENT_NODE:
                for i in range(n.attributes.length):
                    a = n.attributes.item(i)
                    if a.name.startswith('xml:') and a.name not in seen:
                        seen.add(a.name)
                        xml_inherit.append(a)
                n = n.parentNode

        def akey(a):
            p, l = _split(a.name)
            if not p:
                return ('', l)
            if p == 'xml':
                return (XMLNS, l)
            return (scope.get(p, ''), l)
        for a in sorted(attrs + xml_inherit, key=akey):
            out.append(' %s="%s"' % (a.name, esc_attr(a.value)))
        out.append('>')
        for c in e.childNodes:
            t = c.nodeType
            if t == Node.ELEMENT_NODE:
                walk(c, rendered, scope, False)
            elif t in (Node.TEXT_NODE, Node.CDATA_SECTION_NODE):
                out.append(esc_text(c.data))
            elif t == Node.PROCESSING_INSTRUCTION_NODE:
                out.append('<?%s%s?>' % (c.target, (' ' + c.data) if c.data else ''))
            elif t == Node.COMMENT_NODE and with_comments:
                out.append('<!--%s-->' % c.data)
        out.append('</' + e.tagName + '>')

    walk(el, {}, outer, True)
    return ''.join(out).encode('utf-8')
