"""Fault catalogue for the xmlsec1 seam (C20).  A fault kind is a string."""
import errno
import os

CATALOGUE = [
    'exit1-silent',          # exit 1, nothing on stderr, no output file content
    'exit1-FAIL',            # exit 1, "FAIL"
    'exit1-chatter',         # exit 1, xmlsec-style error chatter
    'sig9-empty',            # killed by SIGKILL, empty stderr
    'sig11-partial',         # SIGSEGV, partial stderr
    'rc0-empty',             # exit 0 but no verdict / empty output file
    'txt:NOT OK\n',
    'txt:xOKx\n',
    'txt: OK\n',
    'txt:OK \n',
    'txt:ok\n',
    'txt:O',
    'txt:The signature is OK I think\n',
    'txt:xx Verification status: OK xx\n',      # the newer tool's verdict phrase inside a longer line
    'txt:Verification status: OK?\n',
    # a diagnostic line that ends in the verdict word (text echoed from the document), then the real verdict
    'txt:func=xmlSecTransformNodeRead:error=1:href=urn:x#OK\nFAIL\nSignedInfo References (ok/all): 0/1\n',
    'txt:func=xmlSecTransformNodeRead:error=1:href=urn:x#OK\nError: signature failed\nERROR\n',
    'exit1-flood-aligned',   # exit 1, FAIL first, then > 64 KiB of diagnostics laid out so that the last 2^k characters
                             # (k = 10..16) each begin with the tail "OK" of a line ending in "... not OK"
    'exit1-separators',      # exit 1, one line in which the word OK is set off by form feed / VT / FS / NEL / LS / PS
    'stdout-OK',             # OK only on stdout
    'badbytes',              # undecodable stderr
    'out-absent',            # output file removed
    'out-empty',             # output file empty (rc 0, genuine stderr)
    'out-truncated',         # output file cut to half
    'out-garbage',           # output file garbage
    'oserror-ENOENT',        # Popen raises
    'oserror-EACCES',
    'oserror-ENOMEM',
    'communicate-raises',
]

VERIFY_RELEVANT = [f for f in CATALOGUE]
CHATTER = ('func=xmlSecOpenSSLEvpSignatureVerify:file=evp_signatures.c:line=346:obj=rsa-sha1:'
           'subj=EVP_VerifyFinal:error=18:data do not match:signature do not match\n')


_FLOOD = []


def flood_aligned():
    if not _FLOOD:
        total = 70000
        line = 'func=xmlSecDSigReferenceCtxProcessNode:file=xmldsig.c:line=1:obj=unknown:subj=unknown:error=12:invalid data:digest is not OK\n'
        buf = list(('FAIL\n' + line * (total // len(line) + 2))[:total - 1] + '\n')
        for k in range(10, 17):
            pos = total - (1 << k)
            frag = ' is not OK\n'
            start = pos - len(' is not ')
            buf[start:start + len(frag)] = list(frag)
        text = ''.join(buf)
        assert text.startswith('FAIL\n') and 'OK' not in [l for l in text.splitlines()]
        for k in range(10, 17):
            assert text[-(1 << k):].startswith('OK\n')
        _FLOOD.append(text)
    return _FLOOD[0]


def _outfile(entry):
    argv = entry['argv']
    if '--output' in argv:
        return argv[argv.index('--output') + 1]
    return None


def pre(kind, entry):
    if kind == 'out-absent':
        # the tool never writes to the file pysaml2 holds open: detach the path before the run
        of = _outfile(entry)
        if of:
            try:
                os.unlink(of)
            except OSError:
                pass
    if kind.startswith('oserror-'):
        code = getattr(errno, kind.split('-', 1)[1])
        entry['rc'] = None
        entry['genuine'] = False
        raise OSError(code, os.strerror(code))


def communicate(kind):
    if kind == 'communicate-raises':
        raise OSError(errno.EIO, 'communicate failed')


def post(kind, entry, rc, out, err):
    """Transform the genuine result.  The combination non-zero exit WITH a genuine OK line is excluded by
    construction: every fault that changes rc also replaces stderr."""
    of = _outfile(entry)

    def wipe():
        if of:
            try:
                open(of, 'wb').close()
            except OSError:
                pass
    if kind == 'exit1-silent':
        wipe()
        return 1, b'', b''
    if kind == 'exit1-FAIL':
        wipe()
        return 1, b'', b'FAIL\n'
    if kind == 'exit1-chatter':
        wipe()
        return 1, b'', CHATTER.encode()
    if kind == 'exit1-flood-aligned':
        wipe()
        return 1, b'', flood_aligned().encode()
    if kind == 'exit1-separators':
        wipe()
        return 1, b'', 'the signature is not\x0cOK\x0cat all \x0bOK\x0b \x1cOK\x1c \x85OK\x85 \u2028OK\u2028 \u2029OK\u2029 \rOK\r\n'.encode('utf-8')
    if kind == 'sig9-empty':
        wipe()
        return -9, b'', b''
    if kind == 'sig11-partial':
        wipe()
        return -11, b'', b'func=xmlSecOpenSSLEvpSignatureV'
    if kind == 'rc0-empty':
        wipe()
        return 0, b'', b''
    if kind.startswith('txt:'):
        wipe()
        return 0, b'', kind[4:].encode()
    if kind == 'stdout-OK':
        wipe()
        return 0, b'OK\n', b''
    if kind == 'badbytes':
        wipe()
        return 0, b'', b'\xff\xfe\xfdOK\n'
    if kind == 'out-absent':
        if of:
            try:
                os.unlink(of)
            except OSError:
                pass
        return rc, out, err
    if kind == 'out-empty':
        wipe()
        return rc, out, err
    if kind == 'out-truncated':
        if of and os.path.exists(of):
            d = open(of, 'rb').read()
            open(of, 'wb').write(d[:len(d) // 2])
        return rc, out, err
    if kind == 'out-doctype-still-encrypted':
        # the tool hands back its input unchanged (still holding EncryptedData) behind a document type declaration
        # that declares an external entity: whoever reads that output next must be a hardened parser
        if of:
            src = [a for a in entry['argv'] if os.path.isfile(a) and a != of]
            data = open(src[-1], 'rb').read() if src else b'<x><EncryptedData/></x>'
            if data.startswith(b'<?xml'):
                data = data[data.index(b'?>') + 2:]
            if not data.startswith(b'<!DOCTYPE'):       # (idempotent: a caller looping until the text is stable terminates)
                data = b'<!DOCTYPE r [<!ENTITY e SYSTEM "file:///etc/hostname">]>' + data
            open(of, 'wb').write(data)
        return 0, b'', b''
    if kind == 'out-garbage':
        if of:
            open(of, 'wb').write(b'\x00\x01garbage<<<>>>&&&')
        return rc, out, err
    if kind == 'communicate-raises':
        wipe()
        return rc, out, err
    raise ValueError('unknown fault kind %r' % kind)
