"""Environment seams: virtual clock, deterministic randomness, audit monitor, xmlsec1 seam.

Import this module BEFORE saml2_tophat.  `install()` is idempotent.
"""
import os
import sys
import time as _time
import random as _random
import datetime as _dt
import calendar
import hashlib
import struct

os.environ.setdefault('TZ', 'UTC')
try:
    _time.tzset()
except AttributeError:
    pass

BASE = calendar.timegm((2031, 3, 4, 5, 6, 7, 0, 0, 0))

_real_time = _time.time
_real_gmtime = _time.gmtime
_real_localtime = _time.localtime
_real_strftime = _time.strftime
_RealDateTime = _dt.datetime


class Clock(object):
    now = BASE

    @classmethod
    def set(cls, t):
        cls.now = t

    @classmethod
    def advance(cls, d):
        cls.now += d


def _v_time():
    return float(Clock.now)


def _v_gmtime(secs=None):
    return _real_gmtime(Clock.now if secs is None else secs)


def _v_localtime(secs=None):
    return _real_localtime(Clock.now if secs is None else secs)


def _v_strftime(fmt, t=None):
    if t is None:
        t = _v_localtime()
    return _real_strftime(fmt, t)


class _Meta(type(_RealDateTime)):
    def __instancecheck__(cls, inst):
        return isinstance(inst, _RealDateTime)

    def __subclasscheck__(cls, sub):
        return issubclass(sub, _RealDateTime)


class VDateTime(_RealDateTime, metaclass=_Meta):
    @classmethod
    def utcnow(cls):
        return _RealDateTime.utcfromtimestamp(Clock.now)

    @classmethod
    def now(cls, tz=None):
        if tz is None:
            return _RealDateTime.utcfromtimestamp(Clock.now)
        return _RealDateTime.fromtimestamp(Clock.now, tz)

    @classmethod
    def today(cls):
        return _RealDateTime.utcfromtimestamp(Clock.now)


# ---------------------------------------------------------------- randomness

class DetRandom(_random.Random):
    """Deterministic replacement for random.SystemRandom: one global counter stream."""
    _seed = int(os.environ.get('VERIF_SEED', '0') or 0)
    _counter = 0

    def __init__(self, *a, **k):
        DetRandom._counter += 1
        _random.Random.__init__(self, (DetRandom._seed << 32) ^ DetRandom._counter)

    @classmethod
    def reset(cls, seed=None, counter=0):
        if seed is not None:
            cls._seed = seed
        cls._counter = counter


_det_bytes_ctr = [0]


def det_bytes(n):
    """Deterministic byte source for the xmlsec model (session keys, IVs, padding)."""
    out = b''
    while len(out) < n:
        _det_bytes_ctr[0] += 1
        out += hashlib.sha256(struct.pack('>QQ', DetRandom._seed, _det_bytes_ctr[0])).digest()
    return out[:n]


def reset_rng(seed=None):
    DetRandom.reset(seed)
    _det_bytes_ctr[0] = 0


# --------------------------------------------------------------------- audit

class Audit(object):
    active = False
    events = []
    WATCH = ('open', 'socket.connect', 'socket.getaddrinfo', 'socket.gethostbyname', 'urllib.Request',
             'subprocess.Popen', 'os.system', 'os.exec', 'os.posix_spawn', 'socket.bind',
             'http.client.connect', 'ftplib.connect')
    installed = False

    @classmethod
    def start(cls):
        cls.events = []
        cls.active = True

    @classmethod
    def stop(cls):
        cls.active = False
        ev = cls.events
        cls.events = []
        return ev


def _hook(event, args):
    if not Audit.active:
        return
    if event in Audit.WATCH:
        try:
            a = args[0] if args else None
            if isinstance(a, bytes):
                a = a.decode('utf-8', 'replace')
            if event == 'open':
                mode = args[1] if len(args) > 1 else None
                Audit.events.append((event, str(a), str(mode)))
            else:
                Audit.events.append((event, repr(args)[:200]))
        except Exception:
            Audit.events.append((event, '?'))


# ---------------------------------------------------------------- xmlsec seam

class Seam(object):
    """In-process replacement for subprocess.Popen inside saml2_tophat.sigver."""
    log = []          # list of dict(cmd, argv, rc, genuine, info, fault)
    plan = {}         # ordinal, 'all' or 'from:N' -> fault kind
    external = []     # external access attempts recorded by the model
    count = 0

    @classmethod
    def reset(cls, plan=None):
        cls.log = []
        cls.plan = plan or {}
        cls.external = []
        cls.count = 0


class SeamPopen(object):
    def __init__(self, com_list, stderr=None, stdout=None, **kw):
        from vp import xmlsec
        from vp import faults
        ordinal = Seam.count
        Seam.count += 1
        fault = Seam.plan.get(ordinal)
        if fault is None:
            fault = Seam.plan.get('all')
        argv = list(com_list[1:])
        if fault is None:
            for k, v in Seam.plan.items():        # 'from:N[:CMD]' = every invocation (of that command) from ordinal N on
                if isinstance(k, str) and k.startswith('from:'):
                    parts = k.split(':', 2)
                    if ordinal >= int(parts[1]) and (len(parts) < 3 or (argv and argv[0] == parts[2])):
                        fault = v
        entry = {'ordinal': ordinal, 'cmd': argv[0] if argv else None, 'fault': fault, 'argv': argv}
        Seam.log.append(entry)
        if fault is not None:
            faults.pre(fault, entry)       # may raise OSError (start failure)
        rc, out, err, info = xmlsec.run(argv)
        entry['info'] = info
        entry['genuine_rc'] = rc
        entry['genuine'] = (rc == 0)
        if info.get('external'):
            Seam.external.extend(info['external'])
        out_b = out.encode('utf-8')
        err_b = err.encode('utf-8')
        if fault is not None:
            g_rc = rc
            rc, out_b, err_b = faults.post(fault, entry, rc, out_b, err_b)
            entry['genuine'] = False
            if fault.startswith('out-') and entry['cmd'] == '--verify':
                entry['genuine'] = (g_rc == 0)   # the verdict channel was not touched
        entry['rc'] = rc
        self.returncode = rc
        self._out = out_b
        self._err = err_b
        self._fault = fault

    def communicate(self, *a, **k):
        from vp import faults
        if self._fault is not None:
            faults.communicate(self._fault)
        return self._out, self._err


_installed = [False]


def install():
    if _installed[0]:
        return
    _installed[0] = True
    _time.time = _v_time
    _time.gmtime = _v_gmtime
    _time.localtime = _v_localtime
    _time.strftime = _v_strftime
    _dt.datetime = VDateTime
    _random.SystemRandom = DetRandom
    if not Audit.installed:
        sys.addaudithook(_hook)
        Audit.installed = True
    import logging
    logging.disable(logging.CRITICAL)
    import warnings
    warnings.simplefilter('ignore')
    import saml2_tophat.sigver as sigver
    import saml2_tophat.time_util as tu
    sigver.Popen = SeamPopen
    import saml2_tophat.algsupport as algsupport
    algsupport.Popen = SeamPopen
    warnings.simplefilter('ignore')      # some library modules reset the filter on import ...
    warnings.simplefilter = lambda *a, **k: None      # ... and later ones must not either
    # self-test: the library's clock readers must see the virtual clock
    Clock.set(BASE)
    want = _real_strftime('%Y-%m-%dT%H:%M:%SZ', _real_gmtime(BASE))
    got = tu.instant()
    if got != want:
        raise RuntimeError('virtual clock not in effect: instant()=%s want %s' % (got, want))
    un = tu.utc_now()
    if int(un) != BASE:
        raise RuntimeError('virtual clock not in effect: utc_now()=%r' % (un,))
    tw = tu.time_in_a_while(seconds=5)
    if calendar.timegm(tw.timetuple()) != BASE + 5:
        raise RuntimeError('virtual clock not in effect: time_in_a_while')


def real_time():
    return _real_time()


ZONES = ('UTC', 'VPA-5', 'VPB5')       # POSIX TZ strings: UTC, UTC+5, UTC-5


def zone_of(key):
    """A process time zone chosen as a stable function of an evaluation's coordinates: SAML instants are UTC, so
    every verdict must be the same in every zone; spreading evaluations over zones exposes local-time arithmetic."""
    import zlib
    return ZONES[zlib.crc32(repr(key).encode('utf-8')) % len(ZONES)]


class in_zone(object):
    def __init__(self, tz):
        self.tz = tz

    def __enter__(self):
        import os
        self.prev = os.environ.get('TZ', 'UTC')
        os.environ['TZ'] = self.tz
        _time.tzset()

    def __exit__(self, *a):
        import os
        os.environ['TZ'] = self.prev        # (nested uses restore the enclosing zone)
        _time.tzset()
