#!/bin/sh
# Offline setup: nothing is fetched; verifies the pieces on disk and the xmlsec1 model's self-consistency.
HERE="$(cd "$(dirname "$0")" && pwd)"
cd "$HERE" || exit 1
export PYTHONPATH="$HERE" PYTHONDONTWRITEBYTECODE=1 PYTHONHASHSEED=0 TZ=UTC
chmod +x check tools/xmlsec1 2>/dev/null
mkdir -p evidence replays
/venv/bin/python -m vp.selftest || exit 1
echo "setup ok"
