#!/bin/sh
# Re-validates every property-preserving change under benign/ against the quick tier of its property's check without
# touching /repo (scratch copy of HEAD src/, VP_SRC): every one must leave the check silent (exit 0).  3 in parallel.
# Result: benign/SWEEP.txt     usage: sweep_benign_copy.sh [pattern]
cd /verif || exit 2
PAT="${1:-C}"
ls -d benign/${PAT}*/ | xargs -P 3 -I{} sh -c '
  d="{}"; id=$(basename "$d")
  prop=$(python3 -c "import json; print(json.load(open(\"$d/meta.json\"))[\"property\"])")
  W=$(mktemp -d /root/mutcopy.XXXXXX)
  git -C /repo archive HEAD src | tar -x -C "$W"
  if ! ( cd "$W" && git apply --include="src/*" "/verif/$d/patch.diff" ) 2>/dev/null; then
    if ! ( cd "$W" && patch -p1 --fuzz=3 -s < "/verif/$d/patch.diff" ) >/dev/null 2>&1; then echo "$id $prop DOES-NOT-APPLY"; rm -rf "$W"; exit 0; fi
  fi
  VP_SRC="$W/src" timeout 1800 ./check "$prop" quick --no-recheck --workers 6 > "$W/log" 2>&1; rc=$?
  echo "$id $prop exit=$rc violations=$(grep -c "^VIOLATION" "$W/log")"
  rm -rf "$W"
' > benign/SWEEP.txt.tmp
sort benign/SWEEP.txt.tmp > benign/SWEEP.txt; rm -f benign/SWEEP.txt.tmp
echo "alarms or not applicable:"; grep -v "exit=0" benign/SWEEP.txt
exit 0
