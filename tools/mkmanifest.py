#!/usr/bin/env python3
"""Regenerate /verif/MANIFEST.json from the table below (kept in one place so it is always valid)."""
import json, os
ROOT = os.path.dirname(os.path.dirname(os.path.abspath(__file__)))
TRUST = 'xmlsec1 is absent from the sandbox and replaced at saml2_tophat.sigver.Popen by the environment model vp/xmlsec.py (DESIGN 4); virtual clock and deterministic id source (vp/env.py); bounds as stated in evidence.'
CHECKS = {
 'C20': ('fault_enumeration', 'For 30 operations (SP parse with every signature layout, two metadata certificates, two decryption keys, valid and invalid signatures; IdP request parsing; signed metadata load; response/request creation with signing and encryption) the fault-free invocation sequence at the xmlsec1 seam is learnt and every fault of a 23-entry catalogue is injected at every invocation ordinal and at every invocation (all pairs in thorough); the seam knows which invocations genuinely verified/decrypted what, so acceptance without a genuine verification, acceptance of a fault-free-rejected message, and unprotected output returned as protected are all detected.', '7 C20', 'exhaustive fault-plan enumeration at the process seam of the real code', TRUST),
 'C03': ('exploration', 'Complete product table over forged federations: metadata layout of the claimed issuer x claimed Issuer x actual signing key x embedded KeyInfo x signed element x only_use_keys_in_metadata, each validly-signed-by-that-key document through the real SP; acceptance is allowed only by the formula transcribed from the statement.', '7 C03', 'exhaustive product-table enumeration on the real SP path', TRUST),
 'C06': ('exploration', 'Complete product table of top-level status x second-level code (absent, 21 standard, unknown) x StatusMessage x payload, and the Version dimension on responses and on three request types over three bindings, through the real SP/IdP; the observed exception class is compared with an independent copy of the status-code table.', '7 C06', 'exhaustive product-table enumeration on the real SP/IdP paths', TRUST),
 'C05': ('exploration', 'Complete product table of response InResponseTo x confirmation InResponseTo x Destination x AudienceRestriction layouts x Recipient x plain/encrypted (x bindings in thorough), each forged signed document run through the real SP under all 8 settings of allow_unsolicited x conversation-info x destination pattern; one-directional oracle from the four necessary conditions of the statement plus came_from.', '7 C05', 'exhaustive product-table enumeration on the real SP path', TRUST),
 'C04': ('exploration', 'Complete grid under the virtual clock: every subset of the five optional time bounds (plus session-earlier, wide and inverted shapes) x timestamp spellings x allowance values x placements of now around every allowance-shifted edge and the +-1 day IssueInstant window, each cell through the real SP; oracle is interval arithmetic on the forged values with a 1 s dead zone; both the reject-required and the accept-required side and the session expiry are compared.', '7 C04', 'exhaustive product-grid enumeration under a controlled clock on the real SP path', TRUST),
 'C15': ('model_checking', 'Three exhaustive enumerations on real entities with different keys in one process: BFS over all sequences of obtain-signer/sign/apply_binding/verify steps (canonical-state dedup), every thread schedule with a bounded number of preemptions of concurrent sign/verify scenarios under a cooperative settrace scheduler (line + opcode granularity), and the complete single-parameter mutation table of a signed redirect query; oracle is an independent verifier over the raw query octets.', '7 C15', 'explicit-state BFS over op sequences + preemption-bounded exhaustive schedule exploration (stateless, CHESS-style) + exhaustive mutation table', 'CPython GIL bytecode atomicity; C-level code not interleaved; no race detector for Python exists (opcode-level points in critical functions instead)'),
 'C19': ('model_checking', 'Breadth-first search over histories of store/login/tick/reset/delete on a real Cache and Population under the virtual clock, every transition executed on the memory and the shelve back-end, 57 queries per state compared with a reference dict and between back-ends; states merged by reference content + clock.', '7 C19', 'explicit-state BFS over operation histories vs reference model, two back-ends in lock-step', 'virtual clock; expiry==now and expiry 0 with data are left unspecified (not generated)'),
 'C01': ('model_checking', 'State graph over tree edits of validly signed responses (every depth-1 edit at every site, depth-2 structural-then-follow-up family) plus the complete signature-wrapping grammar (twin x original slot x signature-copy slots x reference target) for assertion- and response-level signatures, plain and encrypted; every state is run through the real SP under every signature-requirement setting and judged by an independent strict-signature verifier and identity-origin oracle.', '7 C01', 'explicit-state BFS over document edits + exhaustive grammar enumeration on the real SP path', TRUST),
 'C18': ('model_checking', 'Breadth-first search over operation histories on a real IdentDB against a reference two-way map with canonical-state deduplication (every history replayed on implementation and reference, every query compared after every step), plus the complete code()/decode() encoding table over a hostile string alphabet.', '7 C18', 'explicit-state BFS over operation histories vs reference model; exhaustive encoding table', 'deterministic id source; identifier texts opaque (canonical renaming); bounds in evidence'),
 'C02': ('exploration', 'Complete product table (8 option settings + options-absent row group x what is signed x plain/encrypted x each corruption of each present signature x identities) run through the real Saml2Client.parse_authn_request_response; both directions of the iff are compared cell by cell.', '7 C02', 'exhaustive product-table enumeration on the real SP path', TRUST),
}
ALL = ['C%02d' % i for i in range(1, 21)]
PENDING_REASON = 'check not built yet in this session (design in DESIGN.md 7); will be claimed once its explorer exists'
m = {
 'version': 1,
 'setup_cmd': './setup.sh',
 'hooks': {'guard': 'SAML2_TOPHAT_VERIF', 'enable': 'exported by ./check; no source hooks exist in /repo (all seams are reachable from outside the package: module attribute saml2_tophat.sigver.Popen, time/random module functions, sys.addaudithook)',
           'baseline_off_cmd': 'cd /repo && /venv/bin/python -m pytest -ra -q -p no:cacheprovider --timeout=900 --continue-on-collection-errors',
           'source_commits': [], 'add_only': True},
 'engines': [
  {'name': 'runner', 'path': 'vp/runner.py', 'serves_properties': ALL, 'kind_free_text': 'tiers, fork worker pool, determinism re-check in a second process, evidence, known-findings matcher, replay files'},
  {'name': 'xmlsec1-model', 'path': 'vp/xmlsec.py', 'serves_properties': ['C01','C02','C03','C04','C05','C06','C08','C10','C16','C17','C20'], 'kind_free_text': 'environment model of the xmlsec1 CLI at the subprocess seam, also the fault-injection point'},
 ],
 'checks': [], 'not_applicable': [],
 'notes': 'Technique family: model checking = exhaustive enumeration of a stated finite space on the real implementation. See DESIGN.md.',
}
for pid in ALL:
    if pid in CHECKS:
        lvl, text, ref, tech, note = CHECKS[pid]
        m['checks'].append({'property_id': pid, 'quick_cmd': './check %s quick' % pid, 'thorough_cmd': './check %s thorough' % pid,
                            'evidence_file': 'evidence/%s.json' % pid, 'replay_cmd_template': './check %s --replay {path}' % pid,
                            'engine': 'runner', 'level_claimed': {'category': lvl, 'text': text, 'design_ref': ref},
                            'level_note': note, 'technique': tech})
    else:
        m['not_applicable'].append({'property_id': pid, 'reason': PENDING_REASON})
json.dump(m, open(os.path.join(ROOT, 'MANIFEST.json'), 'w'), indent=1)
print('checks:', [c['property_id'] for c in m['checks']])
