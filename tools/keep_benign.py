#!/usr/bin/env python3
"""usage: keep_benign.py <src_dir> <benign_id> <property> <what changes observably> <result>
Copies patch.diff / demo.py / notes.md of a property-PRESERVING change into /verif/benign/<id>/ (checks must stay silent)."""
import json, os, shutil, sys
src, bid, prop, what, result = sys.argv[1:6]
d = os.path.join(os.path.dirname(os.path.abspath(__file__)), '..', 'benign', bid)
os.makedirs(d, exist_ok=True)
for f in ('patch.diff', 'demo.py', 'notes.md'):
    if os.path.exists(os.path.join(src, f)):
        shutil.copy(os.path.join(src, f), os.path.join(d, f))
json.dump({'id': bid, 'property': prop, 'kind': 'property-preserving change (no alarm expected)', 'observable': what, 'result': result},
          open(os.path.join(d, 'meta.json'), 'w'), indent=1)
print('kept', os.path.normpath(d))
