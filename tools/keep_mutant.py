#!/usr/bin/env python3
"""keep_mutant.py <src_dir> <seeded_id> <property> <patch-file-name> <status> <needs> <detected-by>
Copies patch.diff / demo.py / notes.md into /verif/seeded/<seeded_id>/ and writes meta.json."""
import json, os, shutil, sys
src, sid, prop, patch, status, needs, det = sys.argv[1:8]
d = os.path.join('/verif/seeded', sid)
os.makedirs(d, exist_ok=True)
shutil.copy(os.path.join(src, patch), os.path.join(d, 'patch.diff'))
for f in os.listdir(src):
    if f.startswith('demo') or f == 'notes.md' or f.endswith(('.key', '.crt', '.pem', '.xml')):
        p = os.path.join(src, f)
        if os.path.isfile(p) and os.path.getsize(p) < 200000:
            shutil.copy(p, os.path.join(d, f))
meta = {'property': prop, 'breaks': open(os.path.join(src, 'notes.md')).read()[:1500] if os.path.exists(os.path.join(src, 'notes.md')) else '',
        'needs_to_manifest': needs, 'status': status, 'detected_by': det,
        'verified': 'applied to /repo with git apply, ran the listed check (tools/try_mutant.sh), reverted with git checkout; sub-agent verified 308 stable tests pass with the patch, demo fails with / passes without',
        'patch_base': 'git -C /repo HEAD at the time of keeping (rebased where the original no longer applied after a fix: commit)'}
json.dump(meta, open(os.path.join(d, 'meta.json'), 'w'), indent=1)
print('kept', d)
