#!/bin/sh
# usage: try_mutant_copy.sh <patch.diff> <ID> [tier]  -- like try_mutant.sh but never touches /repo: the patch is applied
# to a scratch copy of /repo's HEAD (src/ only) and the check imports the library from there (VP_SRC).
P="$1"; ID="$2"; TIER="${3:-quick}"
W=$(mktemp -d /root/mutcopy.XXXXXX)
git -C /repo archive HEAD src | tar -x -C "$W"
( cd "$W" && git apply --include="src/*" "$P" ) || { echo "patch does not apply"; rm -rf "$W"; exit 2; }
cd /verif && VP_SRC="$W/src" ./check "$ID" "$TIER" --no-recheck > "$W/log" 2>&1; rc=$?
grep -v "^  witness\|^VIOLATION\|^WARNING" "$W/log" | tail -8 | cut -c1-500
echo "violations: $(grep -c '^VIOLATION' "$W/log")  exit=$rc"
grep "^  witness" "$W/log" | head -2 | cut -c1-500
rm -rf "$W"
