"""One-off: generate the static test keys/certificates committed under /verif/keys (valid 2000..2100)."""
import datetime, os, sys
from cryptography import x509
from cryptography.x509.oid import NameOID
from cryptography.hazmat.primitives import hashes, serialization
from cryptography.hazmat.primitives.asymmetric import rsa
NAMES = ['idpA', 'idpA2', 'idpAenc', 'idpB', 'spX', 'spXenc1', 'spXenc2', 'spY', 'mallory', 'mdsigner', 'idpAexp',
         'rsa1024', 'rsa1025', 'rsa2047', 'rsa3072']       # rsaNNNN: modulus of NNNN bits (also lengths that are no multiple of 8)
d = os.path.join(os.path.dirname(os.path.abspath(__file__)), '..', 'keys')
for n in NAMES:
    kf = os.path.join(d, n + '.key'); cf = os.path.join(d, n + '.crt')
    if os.path.exists(kf): continue
    k = rsa.generate_private_key(65537, int(n[3:]) if n.startswith('rsa') else 2048)
    name = x509.Name([x509.NameAttribute(NameOID.COMMON_NAME, 'vp-' + n)])
    c = (x509.CertificateBuilder().subject_name(name).issuer_name(name).public_key(k.public_key())
         .serial_number(x509.random_serial_number())
         .not_valid_before(datetime.datetime(2000, 1, 1)).not_valid_after(datetime.datetime(2001, 1, 1) if n.endswith('exp') else datetime.datetime(2100, 1, 1))
         .sign(k, hashes.SHA256()))
    open(kf, 'wb').write(k.private_bytes(serialization.Encoding.PEM, serialization.PrivateFormat.TraditionalOpenSSL, serialization.NoEncryption()))
    open(cf, 'wb').write(c.public_bytes(serialization.Encoding.PEM))
print(sorted(os.listdir(d)))
