#!/bin/sh
# Re-validates every kept change under seeded/ against the quick tier of its property's check without touching /repo:
# each patch is applied to a scratch copy of /repo's HEAD src/ (VP_SRC).  3 in parallel.  Result: seeded/SWEEP.txt
# usage: sweep_seeded_copy.sh [pattern]
cd /verif || exit 2
PAT="${1:-C}"
ls -d seeded/${PAT}*/ | xargs -P 3 -I{} sh -c '
  d="{}"; id=$(basename "$d")
  prop=$(python3 -c "import json; print(json.load(open(\"$d/meta.json\"))[\"property\"])")
  W=$(mktemp -d /root/mutcopy.XXXXXX)
  git -C /repo archive HEAD src | tar -x -C "$W"
  if ! ( cd "$W" && git apply "/verif/$d/patch.diff" ) 2>/dev/null; then echo "$id $prop DOES-NOT-APPLY"; rm -rf "$W"; exit 0; fi
  VP_SRC="$W/src" ./check "$prop" quick --no-recheck --workers 6 > "$W/log" 2>&1; rc=$?
  echo "$id $prop exit=$rc violations=$(grep -c "^VIOLATION" "$W/log")"
  rm -rf "$W"
' > seeded/SWEEP.txt.tmp
sort seeded/SWEEP.txt.tmp > seeded/SWEEP.txt; rm -f seeded/SWEEP.txt.tmp
echo "not detected or not applicable:"; grep -v "exit=1" seeded/SWEEP.txt
exit 0
