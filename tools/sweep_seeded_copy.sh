#!/bin/sh
# Re-validates every kept change under seeded/ against the quick tier of its property's check without touching /repo:
# each patch is applied to a scratch copy of /repo's HEAD src/ (VP_SRC).  SWEEP_P in parallel (default 3), 25 min
# limit per change.  Result: seeded/SWEEP.txt.   usage: sweep_seeded_copy.sh [pattern] [resume-file]
# (resume-file: lines of an earlier, interrupted sweep; ids listed there with exit=1 are not run again)
cd /verif || exit 2
PAT="${1:-C}"
RESUME="${2:-/dev/null}"
ls -d seeded/${PAT}*/ | while read d; do id=$(basename "$d"); grep -q "^$id .* exit=1 " "$RESUME" 2>/dev/null || echo "$d"; done | xargs -P "${SWEEP_P:-3}" -I{} sh -c '
  d="{}"; id=$(basename "$d")
  prop=$(python3 -c "import json; print(json.load(open(\"$d/meta.json\"))[\"property\"])")
  W=$(mktemp -d /root/mutcopy.XXXXXX)
  git -C /repo archive HEAD src | tar -x -C "$W"
  if ! ( cd "$W" && git apply --include="src/*" "/verif/$d/patch.diff" ) 2>/dev/null; then echo "$id $prop DOES-NOT-APPLY"; rm -rf "$W"; exit 0; fi
  VP_SRC="$W/src" timeout 1500 ./check "$prop" quick --no-recheck --workers 5 > "$W/log" 2>&1; rc=$?
  echo "$id $prop exit=$rc violations=$(grep -c "^VIOLATION" "$W/log")"
  rm -rf "$W"
' > seeded/SWEEP.txt.tmp
grep " exit=1 " "$RESUME" 2>/dev/null >> seeded/SWEEP.txt.tmp
sort -u seeded/SWEEP.txt.tmp > seeded/SWEEP.txt; rm -f seeded/SWEEP.txt.tmp
echo "not detected or not applicable:"; grep -v "exit=1" seeded/SWEEP.txt
exit 0
