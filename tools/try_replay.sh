#!/bin/sh
# usage: try_replay.sh <patch.diff> <ID>  -- with the patch: check must print a VIOLATION whose replay reproduces (exit 1);
# without the patch the same replay file must not reproduce (exit 0).
P="$1"; ID="$2"
cd /repo || exit 2
if [ -n "$(git status --porcelain --untracked-files=no)" ]; then echo "repo dirty, refusing"; exit 2; fi
git apply "$P" || exit 2
cd /verif
R=$(./check "$ID" quick 2>/dev/null | grep '^VIOLATION' | head -1 | sed 's/.*replay=//')
if [ -z "$R" ]; then echo "$ID: no violation with patch"; git -C /repo checkout -- .; exit 1; fi
cp "$R" /tmp/try_replay.$$.json
./check "$ID" --replay /tmp/try_replay.$$.json >/tmp/try_replay.$$.out 2>&1; with=$?
git -C /repo checkout -- .
./check "$ID" --replay /tmp/try_replay.$$.json >/tmp/try_replay.$$.out2 2>&1; without=$?
echo "$ID replay: with-patch exit=$with (want 1)  without-patch exit=$without (want 0)"
[ "$with" = 1 ] || grep -v Warning /tmp/try_replay.$$.out | tail -3
[ "$without" = 0 ] || grep -v Warning /tmp/try_replay.$$.out2 | tail -3
rm -f /tmp/try_replay.$$.*
