#!/bin/sh
# Regenerates every evidence file from the quick tier on /repo's current working tree, rebuilds MANIFEST.json and
# validates both against the schemas.  Prints one line per check; exits non-zero if any check is not silent.
cd /verif || exit 2
[ -z "$(git -C /repo status --porcelain -- src)" ] || { echo "/repo/src is not clean"; exit 2; }
bad=0
for n in 01 02 03 04 05 06 07 08 09 10 11 12 13 14 15 16 17 18 19 20; do
  ./check C$n quick > /tmp/final_C$n.log 2>&1; rc=$?
  echo "C$n rc=$rc violations=$(grep -c '^VIOLATION' /tmp/final_C$n.log) known=$(grep -c '^KNOWN-FINDING' /tmp/final_C$n.log)"
  [ $rc -eq 0 ] || bad=1
done
python3 tools/mkmanifest.py || bad=1
python3-vt - <<'PY' || bad=1
import json, glob, jsonschema
m = json.load(open('/verif/MANIFEST.json'))
jsonschema.validate(m, json.load(open('/root/.vp/MANIFEST.schema.json')))
es = json.load(open('/root/.vp/EVIDENCE.schema.json'))
for f in sorted(glob.glob('/verif/evidence/C*.json')):
    jsonschema.validate(json.load(open(f)), es)
print('manifest and %d evidence files valid' % len(glob.glob('/verif/evidence/C*.json')))
PY
exit $bad
