#!/bin/sh
# Runs the repository's pinned baseline suite on /repo's working tree and reports which stable tests no longer pass.
J=/tmp/vp-baseline-$$.xml
cd /repo && /venv/bin/python -m pytest -ra -q -p no:cacheprovider --timeout=900 --continue-on-collection-errors --junitxml=$J >/dev/null 2>&1
/venv/bin/python - "$J" <<'PY'
import json, sys, xml.etree.ElementTree as ET
base = set(json.load(open('/root/.vp/BASELINE.json'))['stable_pass'])
passed = set()
for tc in ET.parse(sys.argv[1]).getroot().iter('testcase'):
    if not any(c.tag in ('failure', 'error', 'skipped') for c in tc):
        passed.add('%s::%s' % (tc.get('classname'), tc.get('name')))
missing = sorted(base - passed)
print('stable tests passing: %d / %d' % (len(base & passed), len(base)))
for m in missing[:20]:
    print('  NOT PASSING:', m)
sys.exit(1 if missing else 0)
PY
rc=$?
rm -f $J
exit $rc
