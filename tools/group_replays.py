#!/usr/bin/env python3
"""group_replays.py <ID> [field ...] - groups the replay files of the last run of a check by witness fields."""
import collections, glob, json, sys
pid = sys.argv[1]
fields = sys.argv[2:] or ['kind']
c = collections.Counter()
for f in glob.glob('/verif/replays/%s/*.json' % pid):
    d = json.load(open(f))
    w = d.get('witness') or d.get('key') or d
    c[tuple(str(w.get(k)) for k in fields)] += 1
for k, v in sorted(c.items()):
    print(v, *k)
