#!/bin/sh
# usage: try_mutant.sh <patch.diff> <ID> [tier]   -- applies the patch to /repo, runs ./check, reverts. Never commits.
P="$1"; ID="$2"; TIER="${3:-quick}"
cd /repo || exit 2
if [ -n "$(git status --porcelain --untracked-files=no)" ]; then echo "repo dirty, refusing"; exit 2; fi
git apply "$P" || { echo "patch does not apply"; exit 2; }
cd /verif && ./check "$ID" "$TIER" > /tmp/try_mutant.$$.log 2>&1; rc=$?
git -C /repo checkout -- . 
grep -v "^  witness\|^VIOLATION" /tmp/try_mutant.$$.log | tail -8
echo "violations: $(grep -c '^VIOLATION' /tmp/try_mutant.$$.log)  exit=$rc"
grep "^  witness" /tmp/try_mutant.$$.log | head -2
rm -f /tmp/try_mutant.$$.log
