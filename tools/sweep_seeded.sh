#!/bin/sh
# Applies every kept change under seeded/ to /repo in turn, runs the quick tier of its property's check and reverts.
# Writes one line per change to seeded/SWEEP.txt: <id> <property> exit=<n> (1 = detected).
cd /verif || exit 2
OUT=seeded/SWEEP.txt
: > $OUT.tmp
for d in seeded/C*/; do
  id=$(basename "$d")
  prop=$(python3 -c "import json,sys; print(json.load(open('$d/meta.json'))['property'])")
  if [ -n "$(git -C /repo status --porcelain --untracked-files=no)" ]; then echo "repo dirty, refusing"; exit 2; fi
  if ! git -C /repo apply --check "/verif/$d/patch.diff" 2>/dev/null; then echo "$id $prop DOES-NOT-APPLY" >> $OUT.tmp; continue; fi
  git -C /repo apply "/verif/$d/patch.diff"
  ./check "$prop" quick --no-recheck >/tmp/sweep.$$.out 2>&1; rc=$?
  git -C /repo checkout -- .
  echo "$id $prop exit=$rc violations=$(grep -c '^VIOLATION' /tmp/sweep.$$.out)" >> $OUT.tmp
done
rm -f /tmp/sweep.$$.out
mv $OUT.tmp $OUT
grep -vc "exit=1" $OUT
